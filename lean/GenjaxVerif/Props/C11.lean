import GenjaxVerif.Lemmas.GFIReplay
import GenjaxVerif.Lemmas.GFIGenerate
import GenjaxVerif.Lemmas.GFIIndex
import GenjaxVerif.Props.GFITest
/-!
# C11 — vmap and repeat behave as independent elementwise calls
-/
namespace GenjaxVerif.GFI
open GenjaxVerif CMap

/-- For every mode: a vmapped function over N elements is N calls of the inner function; call `k`
    receives the `k`-th slice of the mapped arguments (unmapped ones unchanged), the sub-constraint
    at index `k`, the key `split(key, N)[k]` and (for edits) the `k`-th previous subtrace.  The
    result stacks the element returns; weight and score are the sums over elements; element `k`'s
    choices sit under index `k`. -/
theorem C11_vmap_elementwise (ds : DistSem) (m : Mode) (p : Prog) (axes : List Ax) (i : In) (r : Res)
    (h : run ds m (.vmap p axes) i = .ok r) :
    ∃ as n rs, argList i.args = .ok as ∧ dimLength axes as = .ok n ∧ rs.length = n ∧
      (∀ k (hk : k < rs.length), ∃ ik, vmapElem axes as i k = .ok ik ∧ run ds m p ik = .ok rs[k]) ∧
      r.tr = .vec i.args (.arr (rs.map (·.tr.ret))) (rs.map (·.tr)) ∧
      r.w = sumW rs ∧ r.tr.score = Trace.scoreL (rs.map (·.tr)) ∧
      r.tr.choices = Trace.choicesL 0 (rs.map (·.tr)) := by
  simp only [run, vmapRun, bind_ok, pure_ok] at h
  obtain ⟨as, has, n, hn, _, _, rs, h3, rfl⟩ := h
  refine ⟨as, n, rs, (vmapArgs_ok has).1, hn, vmapLoop_length h3, ?_, rfl, rfl, rfl, rfl⟩
  intro k hk
  have := vmapLoop_get h3 k hk
  simp only [bind_ok, Nat.zero_add] at this
  exact this

/-- What element `k` is given. -/
theorem C11_element_input (axes : List Ax) (as : List Val) (i ik : In) (k : Nat)
    (h : vmapElem axes as i k = .ok ik) :
    ik.c = CMap.sub i.c (.i k) ∧ ik.key = i.key.child k ∧ ik.sel = i.sel ∧
    ∃ ea, sliceArgs axes as k = .ok ea ∧ ik.args = .tup ea := by
  simp only [vmapElem, bind_ok, pure_ok] at h
  obtain ⟨ea, hea, _, _, rfl⟩ := h
  exact ⟨rfl, rfl, rfl, ea, hea, rfl⟩

/-- A constraint placed at index `j` reaches element `k` only if `k = j`. -/
theorem C11_indexed_constraint_only_its_element (j k : Nat) (c : CMap) :
    CMap.sub (CMap.pre [.i j] c) (.i k) = if j = k then c else [] := by
  by_cases h : j = k
  · subst h; simp [sub_pre_same]
  · simp [h, sub_pre_ne (k := Comp.i k) (k' := Comp.i j) (by simpa using h)]

/-- The choices of element `k` are found under index `k` of the vector trace's choices. -/
theorem C11_choices_under_index (ts : List Trace) (k : Nat) (hk : k < ts.length) :
    CMap.sub (Trace.choicesL 0 ts) (.i k) = ts[k].choices := by
  simpa using sub_choicesL ts 0 k hk

/-- Zero-length maps are empty with score 0. -/
theorem C11_zero_length (a : Val) : (Trace.vec a (.arr []) []).score = 0 ∧ (Trace.vec a (.arr []) []).choices = [] := by
  simp [Trace.score, Trace.scoreL, Trace.choices, Trace.choicesL]

/-- The slice follows `in_axes`: along axis 1 element `k` sees column `k` of the argument, whose rows
    the other elements share (a test of the definition on a square argument, where taking row `k`
    instead would go unnoticed by shape checks). -/
theorem C11_slice_follows_axis :
    sliceArgs [some 1, none] [.arr [.arr [.int 1, .int 2], .arr [.int 3, .int 4]], .int 9] 0
        = .ok [.arr [.int 1, .int 3], .int 9] ∧
    sliceArgs [some 0, none] [.arr [.arr [.int 1, .int 2], .arr [.int 3, .int 4]], .int 9] 0
        = .ok [.arr [.int 1, .int 2], .int 9] ∧
    dimLength [none, some 1] [.int 9, .arr [.arr [.int 1, .int 2, .int 5], .arr [.int 3, .int 4, .int 6]]] = .ok 3 :=
  ⟨rfl, rfl, rfl⟩

/-- `repeat(n)` is, by the library's own definition, a vmap over `zeros(n)` paired with the
    (unmapped) argument tuple, the inner function ignoring the index. -/
theorem C11_repeat_def (p : Prog) (n : Nat) :
    Derived.repeat p n =
      .dimap (.whole (.tup [.zeros n, .all])) (.vmap (.dimap (.whole (.var 1)) p Derived.retId) [some 0, none])
        Derived.retId := rfl

/-- … so every one of its `n` elements calls `p` on the same arguments. -/
theorem C11_repeat_element_args (n k : Nat) (args : List Val) (hk : k < n) :
    (do let ia ← Pre.apply (.whole (.tup [.zeros n, .all])) args
        let ea ← sliceArgs [some 0, none] ia k
        Pre.apply (.whole (.var 1)) ea) = .ok args := by
  simp [Pre.apply, Expr.eval, Expr.evalL, sliceArgs, sliceAx, bind, Except.bind, pure, Except.pure, hk]

end GenjaxVerif.GFI

namespace GenjaxVerif.GFI
open GenjaxVerif

/-- `IndexRequest(idx, request)` on a vmap trace edits element `idx` only — by the inner function's own
    edit on that element's slice of the arguments — and keeps every other element as it is; its
    weight is the element's weight and its backward request sits under index `idx`. -/
theorem C11_index_request_edits_one_element (ds : DistSem) (m : Mode) (p : Prog) (axes : List Ax) (key : KeyPath)
    (args ret : Val) (elems : List Trace) (idx : Nat) (c : CMap) (sel : Sel) (r : Res)
    (h : editIndex ds m (.vmap p axes) key (.vec args ret elems) idx c sel = .ok r) :
    ∃ (hk : idx < elems.length) (as ea : List Val) (r' : Res), argList args = .ok as ∧ sliceArgs axes as idx = .ok ea ∧
      run ds m p { c, sel, old := some elems[idx], key, args := .tup ea } = .ok r' ∧
      r.tr = .vec args (.arr ((elems.set idx r'.tr).map (·.ret))) (elems.set idx r'.tr) ∧
      r.w = r'.w ∧ r.bwd = CMap.pre [.i idx] r'.bwd :=
  vmap_index_edit ds m p axes key args ret elems idx c sel r h

/-- … and the weight of an index Update is new score − old score of the whole vmap trace. -/
theorem C11_index_update_weight (ds : DistSem) (p : Prog) (axes : List Ax) (key : KeyPath)
    (args ret : Val) (elems : List Trace) (idx : Nat) (c : CMap) (sel : Sel) (r : Res)
    (hs : ∀ t ∈ elems, Shape p t) (hsafe : Safe false p)
    (h : editIndex ds .upd (.vmap p axes) key (.vec args ret elems) idx c sel = .ok r) :
    r.w = r.tr.score - (Trace.vec args ret elems).score :=
  vmap_index_update_weight ds p axes key args ret elems idx c sel r hs hsafe h

end GenjaxVerif.GFI
