import GenjaxVerif.Lemmas.GFIReplay
import GenjaxVerif.Lemmas.GFIGenerate
import GenjaxVerif.Props.GFITest
/-!
# C11 — vmap and repeat behave as independent elementwise calls
-/
namespace GenjaxVerif.GFI
open GenjaxVerif CMap

/-- For every mode: a vmapped function over N elements is N calls of the inner function; call `k`
    receives the `k`-th slice of the mapped arguments (unmapped ones unchanged), the sub-constraint
    at index `k`, the key `split(key, N)[k]` and (for edits) the `k`-th previous subtrace.  The
    result stacks the element returns; weight and score are the sums over elements; element `k`'s
    choices sit under index `k`. -/
theorem C11_vmap_elementwise (ds : DistSem) (m : Mode) (p : Prog) (axes : List Bool) (i : In) (r : Res)
    (h : run ds m (.vmap p axes) i = .ok r) :
    ∃ as n rs, argList i.args = .ok as ∧ dimLength axes as = .ok n ∧ rs.length = n ∧
      (∀ k (hk : k < rs.length), ∃ ik, vmapElem axes as i k = .ok ik ∧ run ds m p ik = .ok rs[k]) ∧
      r.tr = .vec i.args (.arr (rs.map (·.tr.ret))) (rs.map (·.tr)) ∧
      r.w = sumW rs ∧ r.tr.score = Trace.scoreL (rs.map (·.tr)) ∧
      r.tr.choices = Trace.choicesL 0 (rs.map (·.tr)) := by
  simp only [run, vmapRun, bind_ok, pure_ok] at h
  obtain ⟨as, has, n, hn, _, _, rs, h3, rfl⟩ := h
  refine ⟨as, n, rs, has, hn, vmapLoop_length h3, ?_, rfl, rfl, rfl, rfl⟩
  intro k hk
  have := vmapLoop_get h3 k hk
  simp only [bind_ok, Nat.zero_add] at this
  exact this

/-- What element `k` is given. -/
theorem C11_element_input (axes : List Bool) (as : List Val) (i ik : In) (k : Nat)
    (h : vmapElem axes as i k = .ok ik) :
    ik.c = CMap.sub i.c (.i k) ∧ ik.key = i.key.child k ∧ ik.sel = i.sel ∧
    ∃ ea, sliceArgs axes as k = .ok ea ∧ ik.args = .tup ea := by
  simp only [vmapElem, bind_ok, pure_ok] at h
  obtain ⟨ea, hea, _, _, rfl⟩ := h
  exact ⟨rfl, rfl, rfl, ea, hea, rfl⟩

/-- A constraint placed at index `j` reaches element `k` only if `k = j`. -/
theorem C11_indexed_constraint_only_its_element (j k : Nat) (c : CMap) :
    CMap.sub (CMap.pre [.i j] c) (.i k) = if j = k then c else [] := by
  by_cases h : j = k
  · subst h; simp [sub_pre_same]
  · simp [h, sub_pre_ne (k := Comp.i k) (k' := Comp.i j) (by simpa using h)]

/-- The choices of element `k` are found under index `k` of the vector trace's choices. -/
theorem C11_choices_under_index (ts : List Trace) (k : Nat) (hk : k < ts.length) :
    CMap.sub (Trace.choicesL 0 ts) (.i k) = ts[k].choices := by
  simpa using sub_choicesL ts 0 k hk

/-- Zero-length maps are empty with score 0. -/
theorem C11_zero_length (a : Val) : (Trace.vec a (.arr []) []).score = 0 ∧ (Trace.vec a (.arr []) []).choices = [] := by
  simp [Trace.score, Trace.scoreL, Trace.choices, Trace.choicesL]

/-- `repeat(n)` is, by the library's own definition, a vmap over `zeros(n)` paired with the
    (unmapped) argument tuple, the inner function ignoring the index. -/
theorem C11_repeat_def (p : Prog) (n : Nat) :
    Derived.repeat p n =
      .dimap (.whole (.tup [.zeros n, .all])) (.vmap (.dimap (.whole (.var 1)) p Derived.retId) [true, false])
        Derived.retId := rfl

/-- … so every one of its `n` elements calls `p` on the same arguments. -/
theorem C11_repeat_element_args (n k : Nat) (args : List Val) (hk : k < n) :
    (do let ia ← Pre.apply (.whole (.tup [.zeros n, .all])) args
        let ea ← sliceArgs [true, false] ia k
        Pre.apply (.whole (.var 1)) ea) = .ok args := by
  simp [Pre.apply, Expr.eval, Expr.evalL, sliceArgs, bind, Except.bind, pure, Except.pure, hk]

end GenjaxVerif.GFI
