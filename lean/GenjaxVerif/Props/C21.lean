import GenjaxVerif.Lemmas.Pytree
/-!
# C21 — Diff and Pytree utilities are structure-preserving round trips  (PARTIAL)

Statements only (the model functions are in `Model/Pytree.lean`).  Every theorem is for *all*
trees of any depth and width, by structural induction — no size bound.

Partial, for two reasons stated once here:
* JAX's pytree registry, `flatten_up_to`, tracing by `jit` / `vmap` and penzai's
  `Struct.tree_flatten` are *modelled* (`leaves`, `shape`, `fill`, `treeDiff`, `mkData`), not
  verified; the correspondence run ties the model to them on generated trees.
* The statements about `Diff` hold for trees that use `Diff` as documented (`flatDiff`: a `Diff`
  pairs a plain value tree with a change tangent, no `Diff` inside a `Diff`).  For nested `Diff`s
  the full statement is false of the model *and* of the code (`C21_refuted`).
-/
namespace GenjaxVerif.PT

variable {α β γ : Type}

/-! ## tree_diff / tree_primal / tree_tangent -/

/-- `tree_primal(tree_diff(t, tangents)) == t` for every `Diff`-free tree `t` and every tangent
    tree `tree_diff` accepts. -/
theorem C21_primal_diff (t s r : PT α) (ht : noDiff t = true) (hr : treeDiff t s = .ok r) :
    treePrimal r = t := (treeDiff_inv t s r ht hr).1

/-- `tree_tangent(tree_diff(t, tangents)) == tangents`. -/
theorem C21_tangent_diff (t s r : PT α) (ht : noDiff t = true) (hr : treeDiff t s = .ok r) :
    treeTangent r = s := (treeDiff_inv t s r ht hr).2

/-- Non-vacuity of the two theorems above for every tree: `tree_diff` accepts the constant
    tangent tree over `t` and puts one `Diff` around each leaf. -/
theorem C21_tree_diff_const (c : Change) (t : PT α) :
    treeDiff t (bind (fun _ => tan c) t) = .ok (wrap c t) := treeDiff_const c t

example : noDiff (mkTuple [leaf (1 : Int), mkNone, mkDict [("b", leaf 2), ("a", mkConst "7")]]) = true := by rfl
example : treeDiff (mkTuple [leaf (1 : Int), mkList [leaf 2]]) (mkTuple [tan .no, mkList [tan .unknown]])
    = .ok (mkTuple [diff (leaf 1) (tan .no), mkList [diff (leaf 2) (tan .unknown)]]) := by rfl

/-- Error branch: a non-`ChangeTangent` at a leaf position is the `TypeError` of `Diff.__init__`. -/
theorem C21_tree_diff_type_error (a : α) (s : PT α) (h : isChangeTangent s = false) :
    treeDiff (leaf a) s = .error .typeError := by simp [treeDiff, mkDiff, h]

/-- Error branch: containers of different class, static data or arity are the `ValueError` of
    `flatten_up_to` (`None` against a tangent, a tuple against a leaf, …). -/
theorem C21_tree_diff_structure_error (tag tag' : String) (st st' : List String) (ks ks' : List (PT α))
    (h : tag ≠ tag' ∨ st ≠ st' ∨ ks.length ≠ ks'.length) :
    treeDiff (node tag st ks) (node tag' st' ks') = .error .structure := by
  by_cases hh : tag = tag' ∧ st = st'
  · have hl : ks.length ≠ ks'.length := by
      rcases h with h | h | h
      · exact absurd hh.1 h
      · exact absurd hh.2 h
      · exact h
    have : ∀ (xs ys : List (PT α)), xs.length ≠ ys.length → treeDiffL xs ys = .error .structure := by
      intro xs
      induction xs with
      | nil => intro ys hne; cases ys <;> simp_all [treeDiffL]
      | cons x xs ih =>
        intro ys hne
        cases ys with
        | nil => simp [treeDiffL]
        | cons y ys =>
          have := ih ys (by simpa using hne)
          simp only [treeDiffL, this]
          cases treeDiff x y <;> simp [both]
    simp [treeDiff, hh, this ks ks' hl]
  · simp [treeDiff, hh]

example : treeDiff (mkTuple [leaf (1 : Int), mkNone]) (mkTuple [tan .no, tan .unknown]) = .error .structure := by rfl
example : treeDiff (mkTuple [leaf (1 : Int)]) (mkTuple [leaf 7]) = .error .typeError := by rfl

/-- Without `Diff`s `tree_primal` is the identity and every tangent is `NoChange`. -/
theorem C21_primal_plain (t : PT α) (h : noDiff t = true) :
    treePrimal t = t ∧ treeTangent t = bind (fun _ => tan .no) t :=
  ⟨treePrimal_noDiff t h, treeTangent_noDiff t h⟩

/-- `tree_primal` keeps every leaf value, in order, and is idempotent. -/
theorem C21_primal_leaves (t : PT α) (h : flatDiff t = true) :
    leaves (treePrimal t) = leaves t ∧ treePrimal (treePrimal t) = treePrimal t :=
  ⟨leaves_treePrimal t (flatDiff_frontier t h).2,
   treePrimal_noDiff _ (plain_noDiff _ (plain_treePrimal t h))⟩

example : flatDiff (mkTuple [leaf (1 : Int), diff (mkTuple [leaf 2, leaf 3]) (tan .unknown), mkNone]) = true := by rfl

/-! ## no_change / unknown_change -/

/-- For *every* tree (nested `Diff`s included) `no_change` / `unknown_change` never raise and
    return the primal tree with one `Diff` around each leaf. -/
theorem C21_no_change_eq (t : PT α) : noChange t = .ok (wrap .no (treePrimal t)) := retag_eq .no t
theorem C21_unknown_change_eq (t : PT α) : unknownChange t = .ok (wrap .unknown (treePrimal t)) :=
  retag_eq .unknown t

/-- `no_change` preserves the primal tree (hence its structure, static data and values) and the
    leaves; already-`Diff` leaves are re-tagged, not nested. -/
theorem C21_no_change_primal (t r : PT α) (h : flatDiff t = true) (hr : noChange t = .ok r) :
    treePrimal r = treePrimal t ∧ leaves r = leaves t ∧ flatDiff r = true := by
  rw [C21_no_change_eq] at hr
  simp only [Except.ok.injEq] at hr
  subst hr
  have hpl := plain_treePrimal t h
  exact ⟨treePrimal_wrap .no _ (plain_noDiff _ hpl),
    by rw [leaves_wrap, leaves_treePrimal t (flatDiff_frontier t h).2], flatDiff_wrap .no _ hpl⟩

theorem C21_unknown_change_primal (t r : PT α) (h : flatDiff t = true) (hr : unknownChange t = .ok r) :
    treePrimal r = treePrimal t ∧ leaves r = leaves t ∧ flatDiff r = true := by
  rw [C21_unknown_change_eq] at hr
  simp only [Except.ok.injEq] at hr
  subst hr
  have hpl := plain_treePrimal t h
  exact ⟨treePrimal_wrap .unknown _ (plain_noDiff _ hpl),
    by rw [leaves_wrap, leaves_treePrimal t (flatDiff_frontier t h).2], flatDiff_wrap .unknown _ hpl⟩

/-- The tangents after `no_change`: `NoChange` at every leaf position; all leaves are `Diff`s;
    `static_check_no_change` holds. -/
theorem C21_no_change_tangent (t r : PT α) (h : flatDiff t = true) (hr : noChange t = .ok r) :
    treeTangent r = bind (fun _ => tan .no) (treePrimal t) ∧ staticCheckTreeDiff r = true ∧
    staticCheckNoChange r = true := by
  rw [C21_no_change_eq] at hr
  simp only [Except.ok.injEq] at hr
  subst hr
  have hpl := plain_treePrimal t h
  refine ⟨treeTangent_wrap .no _ (plain_noDiff _ hpl), leavesUpTo_wrap_all .no _, ?_⟩
  simp [staticCheckNoChange, tangentLeaves_wrap .no _ hpl, isNoChange]

/-- The tangents after `unknown_change`: `UnknownChange` at every leaf position, so
    `static_check_no_change` is false unless the tree has no leaf at all. -/
theorem C21_unknown_change_tangent (t r : PT α) (h : flatDiff t = true) (hr : unknownChange t = .ok r) :
    treeTangent r = bind (fun _ => tan .unknown) (treePrimal t) ∧ staticCheckTreeDiff r = true ∧
    staticCheckNoChange r = (leaves t).isEmpty := by
  rw [C21_unknown_change_eq] at hr
  simp only [Except.ok.injEq] at hr
  subst hr
  have hpl := plain_treePrimal t h
  refine ⟨treeTangent_wrap .unknown _ (plain_noDiff _ hpl), leavesUpTo_wrap_all .unknown _, ?_⟩
  rw [← leaves_treePrimal t (flatDiff_frontier t h).2]
  simp only [staticCheckNoChange, tangentLeaves_wrap .unknown _ hpl]
  cases leaves (treePrimal t) <;> simp [isNoChange]

/-- Idempotence / absorption (no nested `Diff` is ever produced): re-tagging a re-tagged tree
    only depends on the last tag. -/
theorem C21_retag_idem (t r : PT α) (c c' : Change) (h : flatDiff t = true) (hr : retag c t = .ok r) :
    retag c' r = retag c' t ∧ retag c r = .ok r := by
  rw [retag_eq] at hr
  simp only [Except.ok.injEq] at hr
  subst hr
  have hp := plain_noDiff _ (plain_treePrimal t h)
  simp [retag_eq, treePrimal_wrap c _ hp]

theorem C21_no_change_idem (t r : PT α) (h : flatDiff t = true) (hr : noChange t = .ok r) :
    noChange r = .ok r ∧ unknownChange r = unknownChange t :=
  ⟨(C21_retag_idem t r .no .no h hr).2, (C21_retag_idem t r .no .unknown h hr).1⟩

/-- The reverse round trip: after `no_change` / `unknown_change` the result is exactly
    `tree_diff(tree_primal(r), tree_tangent(r))` — the primal / tangent pair loses nothing. -/
theorem C21_diff_of_primal_tangent (c : Change) (t r : PT α) (h : flatDiff t = true)
    (hr : retag c t = .ok r) : treeDiff (treePrimal r) (treeTangent r) = .ok r := by
  rw [retag_eq] at hr
  simp only [Except.ok.injEq] at hr
  subst hr
  have hp := plain_noDiff _ (plain_treePrimal t h)
  rw [treePrimal_wrap c _ hp, treeTangent_wrap c _ hp]
  exact treeDiff_const c _

example : treeDiff (treePrimal (mkTuple [diff (leaf (1 : Int)) (tan .no), mkNone]))
    (treeTangent (mkTuple [diff (leaf (1 : Int)) (tan .no), mkNone]))
    = .ok (mkTuple [diff (leaf 1) (tan .no), mkNone]) := by rfl

example : noChange (mkTuple [leaf (1 : Int), diff (mkTuple [leaf 2, leaf 3]) (tan .unknown), mkNone])
    = .ok (mkTuple [diff (leaf 1) (tan .no), mkTuple [diff (leaf 2) (tan .no), diff (leaf 3) (tan .no)], mkNone]) := by rfl

/-! ## static_check_no_change -/

/-- `static_check_no_change(v)` is true exactly when every tangent carried by `v` is `NoChange`
    (trees using `Diff` as documented). -/
theorem C21_static_check_no_change_iff (v : PT α) (h : flatDiff v = true) :
    staticCheckNoChange v = true ↔ ∀ x ∈ allTangents v, x = tan .no := by
  have hf := flatDiff_frontier v h
  rw [staticCheckNoChange_eq v hf.2, hf.1]
  simp [List.all_eq_true, isNoChange_iff]

/-- The same for any tree whose outermost `Diff`s are well typed, in terms of the tangents at
    the frontier (nested `Diff`s and free change tangents allowed). -/
theorem C21_static_check_no_change_frontier (v : PT α) (h : typedTangents v = true) :
    staticCheckNoChange v = true ↔ ∀ x ∈ frontierTangents v, x = tan .no := by
  rw [staticCheckNoChange_eq v h]
  simp [List.all_eq_true, isNoChange_iff]

example : flatDiff (mkTuple [diff (leaf (1 : Int)) (tan .no), mkDict [("k", diff (leaf 2) (tan .unknown))]]) = true := by rfl
example : staticCheckNoChange (mkTuple [diff (leaf (1 : Int)) (tan .no), mkDict [("k", diff (leaf 2) (tan .unknown))]]) = false := by rfl

/-- The statement without the "no nested `Diff`" restriction. -/
def C21_full : Prop :=
  ∀ v : PT Int, typedTangents v = true → (staticCheckNoChange v = true ↔ ∀ x ∈ allTangents v, x = tan .no)

/-- It is false: `Diff(Diff(1, UnknownChange), NoChange)` passes `static_check_no_change`
    (the helpers stop at the outermost `Diff`), as in the code.  The class docstring excludes
    nested `Diff`s, so this is a documented precondition, not a defect. -/
theorem C21_refuted : ¬ C21_full := by
  intro h
  have := (h (diff (diff (leaf 1) (tan .unknown)) (tan .no)) (by decide)).1 (by decide)
  have := this (tan .unknown) (by simp [allTangents])
  cases this

/-! ## flatten / unflatten, jit / vmap boundary -/

/-- `tree_unflatten(*reversed(tree_flatten(t))) == t`. -/
theorem C21_unflatten_flatten (t : PT α) : unflatten (flatten t).2 (flatten t).1 = .ok t :=
  unflatten_shape_leaves t

/-- Conversely whatever `tree_unflatten` builds flattens back to its inputs. -/
theorem C21_flatten_unflatten (td : PT Unit) (xs : List α) (t : PT α) (h : unflatten td xs = .ok t) :
    flatten t = (xs, td) := by
  have := unflatten_sound td xs t h
  simp [flatten, this.1, this.2]

/-- Error branch: a wrong number of leaves is rejected. -/
theorem C21_unflatten_leaf_count (td : PT Unit) (xs : List α) (h : xs.length ≠ (leaves td).length) :
    unflatten td xs = .error .leafCount := by
  cases hu : unflatten td xs with
  | ok t =>
    have := unflatten_sound td xs t hu
    have hl : (leaves td).length = (leaves t).length := by
      rw [← this.1, shape, leaves_mapLeaves, List.length_map]
    rw [this.2] at hl
    exact absurd hl.symm h
  | error e => cases e <;> first | rfl | (unfold unflatten at hu; split at hu <;> simp at hu)

example : unflatten (shape (mkTuple [leaf (1 : Int), leaf 2])) [5] = .error .leafCount := by rfl

/-- The identity function across a `jit` / `vmap` boundary returns the same tree (tags, static
    data and leaves), and exactly the leaves are traced. -/
theorem C21_boundary_id (t : PT α) : boundary t = .ok t ∧ tracedInputs t = (flatten t).1.length :=
  ⟨unflatten_shape_leaves t, rfl⟩

/-- Static fields never occur among the leaves of a `Pytree.dataclass` instance: its leaves are
    exactly the leaves of its dynamic fields, and every static field value sits in the treedef. -/
theorem C21_flatten_leaves_no_static (cls : String) (fs : List (Field α)) :
    leaves (mkData cls fs) = leavesL (dynKids fs) ∧
    ∀ n v, Field.static n v ∈ fs →
      ∃ st ks, shape (mkData cls fs) = node cls st ks ∧ (n ++ "=" ++ v) ∈ st := by
  refine ⟨rfl, fun n v h => ⟨_, _, rfl, ?_⟩⟩
  simp [staticPairs_mem fs n v h]

/-- Two instances that differ only in static field values have the same leaves. -/
theorem C21_static_not_traced (cls : String) (fs fs' : List (Field α)) (h : dynKids fs = dynKids fs') :
    leaves (mkData cls fs) = leaves (mkData cls fs') := by
  simp [leaves_mkData, h]

/-- `Const` has no leaves (its value lives in the treedef); a `Closure`'s leaves are those of its
    dynamic arguments. -/
theorem C21_const_closure_leaves (v fn : String) (args : List (PT α)) :
    leaves (mkConst v : PT α) = [] ∧ leaves (mkClosure fn args) = leavesL args := by
  simp [mkConst, mkClosure, mkData, mkTuple, dynKids, leaves, leavesL]

example : flatten (mkData "A" [.dyn "x" (leaf (1 : Int)), .static "s" "hello", .dyn "y" (mkTuple [leaf 2, leaf 3])])
    = ([1, 2, 3], node "A" ["x", "y", "|", "s=hello"] [leaf (), mkTuple [leaf (), leaf ()]]) := by rfl

/-- Test (not a theorem): a dict flattens in sorted-key order whatever its insertion order. -/
example : mkDict [("b", leaf (1 : Int)), ("ab", leaf 3), ("a", leaf 2)] = node "dict" ["a", "ab", "b"] [leaf 2, leaf 3, leaf 1] := by rfl

/-! ## tree_map -/

/-- `tree_map(f, t)` keeps the structure (tags, static data, arities) and maps the leaves in order. -/
theorem C21_tree_map_structure (f : α → β) (t : PT α) :
    shape (mapLeaves f t) = shape t ∧ leaves (mapLeaves f t) = (leaves t).map f :=
  ⟨shape_mapLeaves f t, leaves_mapLeaves f t⟩

/-- Functor laws. -/
theorem C21_tree_map_id_comp (f : α → β) (g : β → γ) (t : PT α) :
    mapLeaves (fun a => a) t = t ∧ mapLeaves g (mapLeaves f t) = mapLeaves (fun a => g (f a)) t :=
  ⟨mapLeaves_id t, mapLeaves_mapLeaves f g t⟩

/-- `tree_map` is flatten, map, unflatten. -/
theorem C21_tree_map_via_flatten (f : α → β) (t : PT α) :
    unflatten (flatten t).2 ((flatten t).1.map f) = .ok (mapLeaves f t) := unflatten_map f t

/-- Example `i` of a batched tree (`nth`, the per-example view under `vmap`) has the structure
    and static data of the batched tree; its leaves are the `i`-th entries. -/
theorem C21_nth_structure (i : Nat) (t : PT (List α)) :
    shape (nth i t) = shape t ∧ leaves (nth i t) = (leaves t).map (fun v => v[i]?) :=
  ⟨shape_mapLeaves _ t, leaves_mapLeaves _ t⟩

end GenjaxVerif.PT
