import GenjaxVerif.Lemmas.GFIReplay
import GenjaxVerif.Lemmas.GFIIndex
import GenjaxVerif.Props.GFITest
/-!
# C12 — scan and its derived combinators match the documented Python loops

`scanLoop f k key carry xs` is the documented loop: for each scanned element in order, run the
kernel on `(carry, x)` with the iteration's key, take the new carry from its return value.
-/
namespace GenjaxVerif.GFI
open GenjaxVerif CMap

/-- For every mode: the scan visits the scanned inputs in order, iteration `k` getting the carry
    produced by iteration `k-1`, the sub-constraint at index `k` and (for edits) the `k`-th previous
    subtrace; the final carry and the stacked outputs are exactly those of the loop over the
    kernel's return values; score and weight are sums; iteration `k`'s choices sit under index `k`. -/
theorem C12_scan_is_the_loop (ds : DistSem) (m : Mode) (p : Prog) (len : Option Nat) (i : In) (r : Res)
    (h : run ds m (.scan p len) i = .ok r) :
    ∃ carry xs rs fin ys, scanArgs len i.args = .ok (carry, xs) ∧ rs.length = xs.length ∧
      (∀ k (hk : k < rs.length) (hx : k < xs.length), ∃ key c ik,
          scanElem m i k key c xs[k] = .ok ik ∧ run ds m p ik = .ok rs[k]) ∧
      rs.mapM secondOfRet = .ok ys ∧
      r.tr = .vec i.args (.tup [fin, .arr ys]) (rs.map (·.tr)) ∧
      r.w = sumW rs ∧ r.tr.score = Trace.scoreL (rs.map (·.tr)) ∧
      r.tr.choices = Trace.choicesL 0 (rs.map (·.tr)) := by
  simp only [run, scanRun, bind_ok, pure_ok] at h
  obtain ⟨⟨carry, xs⟩, hsa, _, _, ⟨rs, fin⟩, h3, ys, hys, rfl⟩ := h
  dsimp only at h3 hys
  obtain ⟨hl, hg⟩ := scanLoop_get h3
  refine ⟨carry, xs, rs, fin, ys, hsa, hl, ?_, hys, rfl, rfl, rfl, rfl⟩
  intro k hk hx
  obtain ⟨key, c, hk'⟩ := hg k hk hx
  simp only [bind_ok, Nat.zero_add] at hk'
  obtain ⟨ik, h1, h2⟩ := hk'
  exact ⟨key, c, ik, h1, h2⟩

/-- The final carry of an empty scan is the initial carry; of a non-empty one, the carry
    component of the last iteration's return value. -/
theorem C12_final_carry {f : Nat → KeyPath → Val → Val → Except Err Res} :
    ∀ {xs k key carry rs fin}, scanLoop f k key carry xs = .ok (rs, fin) →
      (rs = [] → fin = carry) ∧
      (∀ r, rs.getLast? = some r → ∃ y, r.tr.ret = .tup [fin, y])
  | [], _, _, _, rs, fin, h => by
    simp [scanLoop] at h; obtain ⟨rfl, rfl⟩ := h; simp
  | x :: xs, k, key, carry, rs, fin, h => by
    simp only [scanLoop, bind_ok] at h
    obtain ⟨r, h1, h2⟩ := h
    split at h2
    · rename_i c' y hret
      simp only [bind_ok, pure_ok] at h2
      obtain ⟨⟨rs', fin'⟩, h3, h4⟩ := h2
      simp at h4
      obtain ⟨rfl, rfl⟩ := h4
      obtain ⟨ih1, ih2⟩ := C12_final_carry h3
      refine ⟨by simp, ?_⟩
      intro rl hrl
      cases rs' with
      | nil =>
        simp at hrl; subst hrl
        exact ⟨y, by rw [hret, ih1 rfl]⟩
      | cons r2 rs2 =>
        exact ih2 rl (by simpa [List.getLast?_cons_cons] using hrl)
    · simp at h2

/-- Iteration `k` is given the sub-map at index `k`; the choices it makes are found there. -/
theorem C12_iteration_input (m : Mode) (i ik : In) (k : Nat) (key : KeyPath) (c x : Val)
    (h : scanElem m i k key c x = .ok ik) :
    ik.c = CMap.sub i.c (.i k) ∧ ik.key = key ∧ ik.args = .tup [c, x] := by
  simp only [scanElem, bind_ok, pure_ok] at h
  obtain ⟨_, _, rfl⟩ := h
  exact ⟨rfl, rfl, rfl⟩

/-- The derived combinators are the library's own compositions of scan, dimap and mask. -/
theorem C12_derived_defs (p : Prog) (n : Nat) :
    Derived.accumulate p = .dimap .id (.scan (Derived.map p (.tup [.var 2, .var 2])) none) Derived.prependInitialAcc ∧
    Derived.reduce p = Derived.map (.scan (Derived.map p (.tup [.var 2, .tup []])) none) (.proj (.var 2) 0) ∧
    Derived.iterate p n = .dimap .appendUnit (.scan (.dimap .dropLast p (.tup [.var 2, .var 2])) (some n))
      Derived.prependInitialAcc ∧
    Derived.iterateFinal p n = .dimap .appendUnit (.scan (.dimap .dropLast p (.tup [.var 2, .tup []])) (some n))
      (.proj (.var 2) 0) := ⟨rfl, rfl, rfl, rfl⟩

/-- What their return maps compute: `iterate_final` / `reduce` return the final carry of the
    scan, `iterate` / `accumulate` the initial value followed by the stacked carries. -/
theorem C12_derived_return_maps (args xf fin : Val) (ys : List Val) (init : Val) (rest : List Val) :
    Expr.eval [args, xf, .tup [fin, .arr ys]] (.proj (.var 2) 0) = .ok fin ∧
    Expr.eval [.tup (init :: rest), xf, .tup [fin, .arr ys]] Derived.prependInitialAcc = .ok (.arr (init :: ys)) := by
  simp [Expr.eval, Derived.prependInitialAcc, bind, Except.bind, pure, Except.pure]

/-- tests: the model on a concrete `iterate` and `accumulate` -/
example : (run Test.ds .sim (Derived.iterate (.dist 1) 2) { Test.in1 with args := .tup [.int 5] }).toOption.map
    (fun r => r.tr.ret) = some (.arr [.int 5, .int 2, .int 2]) := by rfl

end GenjaxVerif.GFI

namespace GenjaxVerif.GFI
open GenjaxVerif

/-- Index edits of a scan (as repaired in /repo: `fix: Scan.edit_index returns the scan's final
    carry`): iteration `idx` is edited with its recorded arguments; a following iteration is
    re-scored with the new carry and must return what it returned before, and then the final
    carry is the old one; at the last index the final carry is the edited iteration's; the stacked
    outputs change only at `idx`; the weight is the sum of the (at most two) edits' weights. -/
theorem C12_index_edit (ds : DistSem) (m : Mode) (p : Prog) (len : Option Nat) (key : KeyPath)
    (args oldFin : Val) (ys : List Val) (elems : List Trace) (idx : Nat) (c : CMap) (sel : Sel) (r : Res)
    (h : editIndex ds m (.scan p len) key (.vec args (.tup [oldFin, .arr ys]) elems) idx c sel = .ok r) :
    ∃ (hk : idx < elems.length) (r' : Res) (carry' y' : Val),
      run ds m p { c, sel, old := some elems[idx], key, args := elems[idx].args } = .ok r' ∧
      r'.tr.ret = .tup [carry', y'] ∧ r.bwd = CMap.pre [.i idx] r'.bwd ∧
      ((h1 : idx + 1 < elems.length) → ∃ (rn : Res) (x carryOld : Val), elems[idx + 1].args = .tup [carryOld, x] ∧
          run ds .upd p { c := [], sel := .none, old := some elems[idx + 1], key, args := .tup [carry', x] } = .ok rn ∧
          rn.tr.ret.beq elems[idx + 1].ret = true ∧
          r.tr = .vec args (.tup [oldFin, .arr (ys.set idx y')]) ((elems.set idx r'.tr).set (idx + 1) rn.tr) ∧
          r.w = r'.w + rn.w) ∧
      (¬ idx + 1 < elems.length →
          r.tr = .vec args (.tup [carry', .arr (ys.set idx y')]) (elems.set idx r'.tr) ∧ r.w = r'.w) :=
  scan_index_edit ds m p len key args oldFin ys elems idx c sel r h

end GenjaxVerif.GFI
