import GenjaxVerif.Lemmas.GFIUpdate
import GenjaxVerif.Lemmas.GFIKept
import GenjaxVerif.Lemmas.GFIArgs
import GenjaxVerif.Props.GFITest
/-!
# C05 — update installs the constraint and weighs by the score change
-/
namespace GenjaxVerif.GFI
open GenjaxVerif

/-- Weight law: for every program, previous trace of that program's shape, constraint and new
    arguments, an update that draws no fresh trace (no switch is reached with its index tagged
    changed — `Safe`, decidable) has weight `new score − old score`.  Because the result has the
    program's shape again (`C05_update_shape`), the law holds along every sequence of updates. -/
theorem C05_update_weight (ds : DistSem) (p : Prog) (i : In) (r : Res) (told : Trace)
    (h : run ds .upd p i = .ok r) (ho : i.old = some told) (hs : Shape p told) (hsafe : Safe i.changed p) :
    r.w = r.tr.score - told.score :=
  upd_w ds p i r told h ho hs hsafe

/-- The new trace holds the new arguments. -/
theorem C05_new_trace_holds_new_args (ds : DistSem) (p : Prog) (i : In) (r : Res)
    (h : run ds .upd p i = .ok r) : r.tr.args = i.args :=
  run_args ds .upd p i r h

/-- The new trace holds the constraint's value at every (validly) constrained address … -/
theorem C05_update_installs_constraint (ds : DistSem) (p : Prog) (i : In) (r : Res)
    (h : run ds .upd p i = .ok r) : Agrees i.c r.tr :=
  run_agrees ds .upd (Or.inr rfl) p i r h

/-- … and the previous value at every other address (no fresh trace drawn). -/
theorem C05_update_keeps_unconstrained (ds : DistSem) (p : Prog) (i : In) (r : Res) (told : Trace)
    (h : run ds .upd p i = .ok r) (ho : i.old = some told) (hs : Shape p told) (hsafe : Safe i.changed p) :
    Kept i.c told r.tr :=
  upd_kept ds p i r told h ho hs hsafe

/-- Every operation returns a trace of the program's shape, so histories compose. -/
theorem C05_update_shape (ds : DistSem) (m : Mode) (p : Prog) (i : In) (r : Res)
    (h : run ds m p i = .ok r) : Shape p r.tr :=
  run_shape ds m p i r h

/-- At a primitive choice: a (validly) constrained address takes the constraint's value, an
    unconstrained one keeps the previous value, and the backward constraint holds exactly the
    previous value when (and only when) the address was overwritten. -/
theorem C05_leaf_update (ds : DistSem) (d : Nat) (i : In) (r : Res) (d' a ov olp)
    (ho : i.old = some (.dist d' a ov olp)) (h : leaf ds .upd d i = .ok r) :
    (i.c.leaf = none → r.tr = .dist d i.args ov (ds.lp d ov i.args) ∧ r.bwd = []) ∧
    (∀ v, i.c.leaf = some (.plain v) → r.tr = .dist d i.args v (ds.lp d v i.args) ∧ r.bwd = [([], .plain ov)]) ∧
    (∀ v, i.c.leaf = some (.masked true v) →
      r.tr = .dist d i.args v (ds.lp d v i.args) ∧ r.bwd = [([], .masked true ov)]) ∧
    (∀ v, i.c.leaf = some (.masked false v) →
      r.tr = .dist d i.args ov (ds.lp d ov i.args) ∧ r.bwd = [([], .masked false ov)]) := by
  unfold leaf at h
  simp only [oldOf, ho, bind, Except.bind] at h
  refine ⟨?_, ?_, ?_, ?_⟩
  · intro hc; simp [hc, pure, Except.pure] at h; subst h; exact ⟨rfl, rfl⟩
  · intro v hc; simp [hc, pure, Except.pure] at h; subst h; exact ⟨rfl, rfl⟩
  · intro v hc; simp [hc, pure, Except.pure] at h; subst h; exact ⟨rfl, rfl⟩
  · intro v hc; simp [hc, pure, Except.pure] at h; subst h; exact ⟨rfl, rfl⟩

/-- The full statement also covers switch-index changes; there the implementation draws a fresh
    trace (new random choices), which the property excludes ("whenever no new random choice is
    introduced"), hence the `Safe` hypothesis above.  Non-vacuity (a test): -/
example : Safe false Test.prog1 := by simp [Test.prog1, Safe, SafeBody]

end GenjaxVerif.GFI
