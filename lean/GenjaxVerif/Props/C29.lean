import GenjaxVerif.Lemmas.Adev
/-!
# C29 — ADEV estimators are correct derivative estimators   (PARTIAL)

Statements only; the model is `Model/Adev.lean`.  Everything is over ℚ, for all parameter
values, all input tangents and arbitrary continuations (Lean functions), or — for the
program-level theorems — all programs of the grammar `Prog`, all environments, keys, noise
tables and continuations.

What Lean carries: the algebra of the estimators (primal = value, enumeration = exact
expectation with its product-rule derivative, REINFORCE / baseline / MVD unbiased over a finite
outcome space, reparameterisation = chain rule through `x = μ + σ ε`, `add_cost` additive,
tangent linear in the input tangent so that `grad` = `jvp` at tangent 1).
Outside: continuous expectations (normal_reinforce / reparam unbiasedness in ε), the
identification of the dual-number tangent of a *continuation* with its analytic derivative
(taken as the hypotheses `k` is a dual lifting), `jax.grad`'s transposition machinery, float32.

`C29_full` (no exported primitive raises), `C29_primal_prog_full` (primal = value for programs with
sites inside `cond` branches) and `C29_keys_full` (distinct sites draw from distinct keys) are FALSE
of the code as written; see `C29_refuted`, `C29_primal_prog_refuted`, `C29_keys_refuted`.
-/
namespace GenjaxVerif.Adev

/-! ## Primal = the program's value for the sampled randomness -/

/-- `normal_reparam`: the dual handed to the continuation is `⟨μ + σ ε, μ' + σ' ε⟩`. -/
theorem C29_reparam_sample (mu sigma : Dual) (eps : Rat) :
    normalReparamSample mu sigma eps = ⟨mu.p + sigma.p * eps, mu.t + sigma.t * eps⟩ := by
  refine Dual.ext' ?_ ?_ <;> simp [normalReparamSample]

/-- Estimator level: the primal of every estimator's output is the continuation applied to the
    sampled value (enumeration: the exact expectation of the continuation's primal). -/
theorem C29_primal (p b mu sigma w : Dual) (x : Bool) (eps xr : Rat)
    (k : Bool → Dual) (kr : Dual → Dual) :
    (flipEnumJvp p k).p = expect (bern p.p) (fun x => (k x).p) ∧
    (flipReinforceJvp p x k).p = (k x).p ∧
    (flipMvdJvpIntended p x k).p = (k x).p ∧
    (baselineJvp b (flipReinforceJvp p x) k).p = (k x).p ∧
    (normalReparamJvp mu sigma eps kr).p = (kr ⟨mu.p + sigma.p * eps, mu.t + sigma.t * eps⟩).p ∧
    (normalReinforceJvp mu sigma xr kr).p = (kr (Dual.const xr)).p ∧
    (addCostJvp w (k x)).p = w.p + (k x).p := by
  refine ⟨?_, rfl, rfl, ?_, ?_, rfl, rfl⟩
  · simp [flipEnumJvp]
  · simp [baselineJvp, flipReinforceJvp, reinforceCombine]
  · rw [normalReparamJvp, C29_reparam_sample]

/-- Full statement, program level: for EVERY program, noise table, parameter value and input
    tangent, the primal of `Expectation.jvp_estimate` is the program's value for that noise. -/
def C29_primal_prog_full : Prop :=
  ∀ (ln : Rat → Option Rat) (nz : Noise) (prog : Prog) (th : Dual),
    (jvpEstimate ln nz prog th).map (·.p) = progValue ln nz prog th.p

/-- PARTIAL (decidable hypothesis `prog.branchesSiteFree`: no sampling site / `add_cost` inside a
    `cond` branch): the primal is the program's value (or the same error), for every such program,
    noise table, θ and input tangent.  Missing: programs with sites inside `cond` branches, where the
    code applies the rest of the program to the branch's *averaged / cost-shifted* result
    (`k(E[r])`, `k(w + r)`) instead of `E[k(r)]`, `w + k(r)` — see `C29_primal_prog_refuted`. -/
theorem C29_primal_prog_partial (ln : Rat → Option Rat) (nz : Noise) (prog : Prog) (th : Dual)
    (h : prog.branchesSiteFree = true) :
    (jvpEstimate ln nz prog th).map (·.p) = progValue ln nz prog th.p :=
  evalK_proj ln nz prog h ⟨th, [], []⟩ [] pure pure (fun _ => rfl)

example : (Prog.addCost (.mul .th .th) (.sample .flipReinforce [.th]
    (.cond 0 (.ret (.c 1)) (.ret .th) (.sample .normalReparam [.rv 0, .c 1] (.ret (.mul (.rv 1) (.rv 1))))))).branchesSiteFree
    = true := rfl

/-- `b = flip_enum(1/2); r = cond(b, 1, (add_cost(1); 1)); return r*r`: the value is
    `1/2·1 + 1/2·(1 + 1) = 3/2`, the code computes `1/2·1 + 1/2·(1 + 1)² = 5/2`. -/
def condWitness : Prog :=
  .sample .flipEnum [.c (1/2)]
    (.cond 0 (.ret (.c 1)) (.addCost (.c 1) (.ret (.c 1))) (.ret (.mul (.rv 0) (.rv 0))))

theorem C29_primal_prog_refuted : ¬ C29_primal_prog_full := by
  intro h
  have := h (fun _ => none) ⟨fun _ => none, fun _ => none⟩ condWitness ⟨0, 0⟩
  revert this
  simp [condWitness, jvpEstimate, progValue, evalK, evalVal, evalArgs, valArgs, evalExpr, valExpr, primJvp,
    primVal, flipEnumJvp, addCostJvp, optE, Env.push, Env.pushB, Env.pushR, VEnv.push, Except.map,
    bind, Except.bind, pure, Except.pure]
  norm_num

/-! ## Enumeration is exact -/

/-- `flip_enum`: primal = `p·k(T) + (1−p)·k(F)`; tangent = the product-rule derivative of that
    expression, where `p.t`, `(k ·).t` are the derivatives of `p`, `k ·`. -/
theorem C29_flip_enum_exact (p : Dual) (k : Bool → Dual) :
    (flipEnumJvp p k).p = p.p * (k true).p + (1 - p.p) * (k false).p ∧
    (flipEnumJvp p k).t =
      p.t * ((k true).p - (k false).p) + expect (bern p.p) (fun x => (k x).t) := by
  constructor
  · simp [flipEnumJvp]
  · simp [flipEnumJvp]; ring

/-- Enumeration over any finite support with dual weights: primal `Σ wᵢ·k(i)`, tangent
    `Σ wᵢ'·k(i) + Σ wᵢ·k(i)'`. -/
theorem C29_categorical_enum_exact (ws : List Dual) (k : Nat → Dual) :
    (categoricalEnumJvp ws k).p
      = ((List.range ws.length).map (fun i => (ws.getD i (Dual.const 0)).p * (k i).p)).sum ∧
    (categoricalEnumJvp ws k).t
      = ((List.range ws.length).map (fun i => (ws.getD i (Dual.const 0)).t * (k i).p)).sum
        + ((List.range ws.length).map (fun i => (ws.getD i (Dual.const 0)).p * (k i).t)).sum := by
  unfold categoricalEnumJvp
  generalize List.range ws.length = is
  induction is with
  | nil => simp
  | cons i is ih =>
    obtain ⟨ihp, iht⟩ := ih
    constructor
    · simp only [List.foldr_cons, Dual.add_p, Dual.mul_p, List.map_cons, List.sum_cons, ihp]
    · simp only [List.foldr_cons, Dual.add_t, Dual.mul_t, List.map_cons, List.sum_cons, iht]; ring

/-- Two-point case: `categoricalEnumJvp [p, 1−p]` is `flipEnumJvp p`. -/
theorem C29_categorical_two (p : Dual) (k : Bool → Dual) :
    categoricalEnumJvp [p, Dual.const 1 - p] (fun i => k (i == 0)) = flipEnumJvp p k := by
  refine Dual.ext' ?_ ?_ <;> simp [categoricalEnumJvp, flipEnumJvp, List.range, List.range.loop]

/-! ## REINFORCE, baseline, MVD are unbiased (finite outcome space) -/

/-- `flip_reinforce`: the expectation over `x ~ Bernoulli(p)` of the tangent the estimator returns
    equals the exact derivative (the tangent `flip_enum` computes), for every continuation and
    every `p' = p.t`. -/
theorem C29_reinforce_unbiased (p : Dual) (k : Bool → Dual) (h0 : 0 < p.p) (h1 : p.p < 1) :
    expect (bern p.p) (fun x => (flipReinforceJvp p x k).t) = (flipEnumJvp p k).t := by
  have hp : p.p ≠ 0 := ne_of_gt h0
  have hq : 1 - p.p ≠ 0 := by linarith
  simp [flipReinforceJvp, reinforceCombine, flipLpTangent, flipEnumJvp]
  field_simp
  ring

example : (0 : Rat) < (⟨3/8, 1⟩ : Dual).p ∧ (⟨3/8, 1⟩ : Dual).p < 1 := by constructor <;> norm_num

/-- `baseline(flip_reinforce)(b, p)`: subtracting any baseline `b` (even one that depends on θ)
    leaves the primal equal to `k x` and the expected tangent equal to the exact derivative. -/
theorem C29_baseline_unbiased (p b : Dual) (k : Bool → Dual) (h0 : 0 < p.p) (h1 : p.p < 1) :
    (∀ x, (baselineJvp b (flipReinforceJvp p x) k).p = (k x).p) ∧
    expect (bern p.p) (fun x => (baselineJvp b (flipReinforceJvp p x) k).t) = (flipEnumJvp p k).t := by
  have hp : p.p ≠ 0 := ne_of_gt h0
  have hq : 1 - p.p ≠ 0 := by linarith
  constructor
  · intro x; simp [baselineJvp, flipReinforceJvp, reinforceCombine]
  · simp [baselineJvp, flipReinforceJvp, reinforceCombine, flipLpTangent, flipEnumJvp]
    field_simp
    ring

/-- A baseline around an enumeration primitive changes nothing. -/
theorem C29_baseline_enum (p b : Dual) (k : Bool → Dual) :
    baselineJvp b (flipEnumJvp p) k = flipEnumJvp p k := by
  refine Dual.ext' ?_ ?_ <;> simp [baselineJvp, flipEnumJvp] <;> ring

/-- The measure-valued estimator `flip_mvd` is *meant* to be (using the tangent of `p`) is
    unbiased.  PARTIAL: the method as written reads the primal of `p` where the tangent is needed
    (`C29_mvd_as_written_biased`) and in fact raises for every input (`C29_raises`). -/
theorem C29_mvd_unbiased_partial (p : Dual) (k : Bool → Dual) :
    expect (bern p.p) (fun x => (flipMvdJvpIntended p x k).t) = (flipEnumJvp p k).t := by
  simp [flipMvdJvpIntended, flipEnumJvp]; ring

theorem C29_mvd_as_written_biased :
    ∃ (p : Dual) (k : Bool → Dual), 0 < p.p ∧ p.p < 1 ∧
      expect (bern p.p) (fun x => (flipMvdJvpAsWritten p x k).t) ≠ (flipEnumJvp p k).t :=
  ⟨⟨1/2, 1⟩, fun x => if x then ⟨1, 0⟩ else ⟨0, 0⟩, by norm_num, by norm_num, by
    simp [flipMvdJvpAsWritten, flipEnumJvp]; norm_num⟩

/-! ## Reparameterisation is the pathwise derivative -/

/-- `normal_reparam`: the value handed to the continuation is `x = μ + σ ε` with tangent
    `μ' + σ' ε`; hence for any continuation that is a dual lifting of `f` with derivative `f'` in `x`
    and partial derivative `g` in θ (`k ⟨x, t⟩ = ⟨f x, f' x · t + g x⟩` — true of every polynomial
    continuation, see the `example`), the output is
    `⟨f (μ + σ ε), f' (μ + σ ε) · (μ' + σ' ε) + g (μ + σ ε)⟩`. -/
theorem C29_reparam_pathwise (mu sigma : Dual) (eps : Rat) (k : Dual → Dual) (f f' g : Rat → Rat)
    (hk : ∀ d, k d = ⟨f d.p, f' d.p * d.t + g d.p⟩) :
    normalReparamJvp mu sigma eps k =
      ⟨f (mu.p + sigma.p * eps),
       f' (mu.p + sigma.p * eps) * (mu.t + sigma.t * eps) + g (mu.p + sigma.p * eps)⟩ := by
  rw [normalReparamJvp, C29_reparam_sample, hk]

/-- Non-vacuity: the dual evaluation of the polynomial `x ↦ x·x + θ·x` (θ = ⟨a, 1⟩) is a lifting. -/
example (a : Rat) : ∀ d : Dual, (d * d + (⟨a, 1⟩ : Dual) * d)
    = ⟨(fun x => x * x + a * x) d.p, (fun x => 2 * x + a) d.p * d.t + (fun x => x) d.p⟩ := by
  intro d; refine Dual.ext' ?_ ?_
  · simp
  · simp; ring

/-! ## add_cost -/

/-- `add_cost(w)` adds `w` (primal and tangent) to whatever the rest of the program yields. -/
theorem C29_add_cost_linear (ln : Rat → Option Rat) (nz : Noise) (e : Expr) (k : Prog)
    (env : Env) (key : Key) (K : Dual → Except Err Dual) :
    evalK ln nz (.addCost e k) env key K
      = (do let w ← evalExpr ln env e; let l ← evalK ln nz k env key K; pure (w + l)) := by
  simp only [evalK]; rfl

/-- Under an enumeration the cost is averaged like everything else:
    `E[w + k] = w + E[k]` as duals. -/
theorem C29_add_cost_enum (p w : Dual) (k : Bool → Dual) :
    flipEnumJvp p (fun x => addCostJvp w (k x)) = addCostJvp w (flipEnumJvp p k) := by
  refine Dual.ext' ?_ ?_ <;> simp [flipEnumJvp, addCostJvp] <;> ring

/-! ## grad_estimate vs jvp_estimate -/

/-- The output tangent is linear in the input tangent, the primal does not depend on it, for EVERY
    program: `jvp_estimate(key, Dual(θ, τ)) = ⟨P, τ·T⟩` where `⟨P, T⟩ = jvp_estimate(key, Dual(θ, 1))`. -/
theorem C29_tangent_linear (ln : Rat → Option Rat) (nz : Noise) (prog : Prog) (th τ : Rat) :
    jvpEstimate ln nz prog ⟨th, τ⟩ = (jvpEstimate ln nz prog ⟨th, 1⟩).map (scale τ) := by
  have h := evalK_scale ln nz τ prog ⟨⟨th, 1⟩, [], []⟩ [] pure pure (fun _ => rfl)
  unfold Sc at h
  have e : (Env.scale τ ⟨⟨th, 1⟩, [], []⟩) = ⟨⟨th, τ⟩, [], []⟩ := by
    simp [Env.scale, scale]
  rw [e] at h
  exact h.symm

/-- `grad_estimate` (modelled as the coefficient of the input tangent, which is what transposing
    the linear JVP rule yields) times `τ` is the tangent `jvp_estimate` returns for input tangent `τ`.
    Outside the model: `jax.grad` / `custom_jvp` linearisation and transposition. -/
theorem C29_grad_eq_jvp (ln : Rat → Option Rat) (nz : Noise) (prog : Prog) (th τ : Rat) :
    (jvpEstimate ln nz prog ⟨th, τ⟩).map (·.t) = (gradEstimate ln nz prog th).map (τ * ·) := by
  rw [C29_tangent_linear, gradEstimate]
  cases jvpEstimate ln nz prog ⟨th, 1⟩ <;> rfl

/-! ## Call sites that raise for every input -/

/-- `flip_mvd`, `flip_enum_parallel`, `categorical_enum_parallel`, `uniform` raise whatever their
    arguments, key and continuation; so does `Expectation.estimate`. -/
theorem C29_raises (nz : Noise) (ds : List Dual) (key : Key) (kv : Val → Key → Except Err Dual)
    (prog : Prog) (th : Rat) :
    primJvp nz .flipMvd ds key kv = .error (.raises "flip_mvd") ∧
    primJvp nz .flipEnumParallel ds key kv = .error (.raises "flip_enum_parallel") ∧
    primJvp nz .categoricalEnumParallel ds key kv = .error (.raises "categorical_enum_parallel") ∧
    primJvp nz .uniform ds key kv = .error (.raises "uniform") ∧
    estimateAsWritten prog th = .error (.raises "Expectation.estimate") :=
  ⟨rfl, rfl, rfl, rfl, rfl⟩

/-- Full statement: no exported primitive's estimator raises (given a continuation that does not). -/
def C29_full : Prop :=
  ∀ (nz : Noise) (prim : Prim) (ds : List Dual) (key : Key) (kv : Val → Key → Except Err Dual),
    (∀ v k c, kv v k ≠ .error (.raises c)) → ∀ c, primJvp nz prim ds key kv ≠ .error (.raises c)

theorem C29_refuted : ¬ C29_full := by
  intro h
  exact h ⟨fun _ => none, fun _ => none⟩ .flipMvd [] [] (fun _ _ => .ok ⟨0, 0⟩)
    (fun _ _ _ => by simp) "flip_mvd" rfl

/-- The primitives that work. -/
def Prim.works : Prim → Bool
  | .flipEnum | .flipReinforce | .normalReparam | .normalReinforce => true
  | .baseline inner => inner.works
  | _ => false

/-- PARTIAL (hypothesis `prim.works`, decidable): the working primitives never raise. -/
theorem C29_no_raise_partial (nz : Noise) (prim : Prim) (hw : prim.works = true) :
    ∀ (ds : List Dual) (key : Key) (kv : Val → Key → Except Err Dual),
    (∀ v k c, kv v k ≠ .error (.raises c)) → ∀ c, primJvp nz prim ds key kv ≠ .error (.raises c) := by
  induction prim with
  | baseline inner ih =>
    intro ds key kv hk c
    cases ds with
    | nil => simp [primJvp]
    | cons b args =>
      simp only [primJvp]
      have := ih hw args key (fun v k' => do pure ((← kv v k') - b)) (by
        intro v k' c'
        have := hk v k' c'
        cases hkv : kv v k' with
        | error e => rw [hkv] at this; simpa [bind, Except.bind] using this
        | ok d => simp [bind, Except.bind, pure, Except.pure]) c
      cases hin : primJvp nz inner args key (fun v k' => do pure ((← kv v k') - b)) with
      | error e => rw [hin] at this; simpa [bind, Except.bind] using this
      | ok d => simp [bind, Except.bind, pure, Except.pure]
  | flipEnum =>
    intro ds key kv hk c
    match ds with
    | [] => simp [primJvp]
    | [p] =>
      simp only [primJvp]
      have ha := hk (.b true) key c
      have hb := hk (.b false) key c
      cases hka : kv (.b true) key with
      | error e => rw [hka] at ha; simpa [bind, Except.bind] using ha
      | ok a =>
        cases hkb : kv (.b false) key with
        | error e => rw [hkb] at hb; simpa [bind, Except.bind] using hb
        | ok b => simp [bind, Except.bind, pure, Except.pure]
    | _ :: _ :: _ => simp [primJvp]
  | flipReinforce =>
    intro ds key kv hk c
    match ds with
    | [] => simp [primJvp]
    | [p] =>
      simp only [primJvp]
      cases nz.u (key ++ [1]) with
      | none => simp [optE, bind, Except.bind]
      | some u =>
        simp only [optE, bind_ok]
        have ha := hk (.b (decide (u < p.p))) (key ++ [0]) c
        cases hka : kv (.b (decide (u < p.p))) (key ++ [0]) with
        | error e => rw [hka] at ha; simpa [bind, Except.bind] using ha
        | ok a => simp [bind, Except.bind, pure, Except.pure]
    | _ :: _ :: _ => simp [primJvp]
  | normalReparam =>
    intro ds key kv hk c
    match ds with
    | [] => simp [primJvp]
    | [_] => simp [primJvp]
    | [mu, sigma] =>
      simp only [primJvp]
      cases nz.eps (key ++ [1]) with
      | none => simp [optE, bind, Except.bind]
      | some e => simp only [optE, bind_ok]; exact hk _ _ c
    | _ :: _ :: _ :: _ => simp [primJvp]
  | normalReinforce =>
    intro ds key kv hk c
    match ds with
    | [] => simp [primJvp]
    | [_] => simp [primJvp]
    | [mu, sigma] =>
      simp only [primJvp]
      cases nz.eps (key ++ [1]) with
      | none => simp [optE, bind, Except.bind]
      | some e =>
        simp only [optE, bind_ok]
        have ha := hk (.r (Dual.const (e * sigma.p + mu.p))) (key ++ [0]) c
        cases hka : kv (.r (Dual.const (e * sigma.p + mu.p))) (key ++ [0]) with
        | error e => rw [hka] at ha; simpa [bind, Except.bind] using ha
        | ok a => simp [bind, Except.bind, pure, Except.pure]
    | _ :: _ :: _ :: _ => simp [primJvp]
  | flipMvd => simp [Prim.works] at hw
  | flipEnumParallel => simp [Prim.works] at hw
  | categoricalEnumParallel => simp [Prim.works] at hw
  | uniform => simp [Prim.works] at hw

example : (Prim.baseline .flipReinforce).works = true := rfl

/-! ## Independent randomness: distinct sites draw from distinct keys -/

/-- Full statement: along an execution, no two sampling sites read the same noise key. -/
def C29_keys_full : Prop := ∀ (prog : Prog) (key : Key), (siteKeys prog key).Nodup

/-- Refuted twice by the code as written:
    (1) a tail-call primitive hands its *unsplit* key to the continuation, so two consecutive
        `normal_reparam` sites draw the same ε;
    (2) the continuation after a `cond` closes over the key at the `cond`, so a site inside a
        branch and a site after the `cond` draw from the same key. -/
theorem C29_keys_refuted : ¬ C29_keys_full := by
  intro h
  have := h (.sample .normalReparam [.c 0, .c 1] (.sample .normalReparam [.c 0, .c 1] (.ret (.rv 0)))) []
  revert this
  decide

theorem C29_keys_refuted_cond :
    ¬ (siteKeys (.cond 0 (.sample .flipReinforce [.th] (.ret (.c 0))) (.ret (.c 0))
        (.sample .flipReinforce [.th] (.ret (.c 0)))) []).Nodup := by
  decide


/-- PARTIAL (decidable hypothesis `prog.keySafe`: straight-line programs over `flip_enum`,
    `flip_reinforce`, `normal_reinforce` and baselines of them): no two sampling sites read the same
    noise key, from any starting key.  Missing: tail-call primitives and `cond` (refuted above). -/
theorem C29_keys_distinct_partial (prog : Prog) (h : prog.keySafe = true) :
    ∀ key, (siteKeys prog key).Nodup := by
  induction prog with
  | ret e => intro key; simp [siteKeys]
  | sample prim args k ih =>
    intro key
    simp only [Prog.keySafe, Bool.and_eq_true] at h
    simp only [siteKeys]
    rcases primKeys_shape prim h.1 key with hs | hs
    · rw [hs]
      simp only [List.singleton_append, List.nodup_cons]
      refine ⟨?_, ih h.2 _⟩
      intro hmem
      obtain ⟨s, hs', _⟩ := siteKeys_prefix k h.2 (key ++ [0]) _ hmem
      rw [List.append_assoc] at hs'
      have := List.append_cancel_left hs'
      simp at this
    · rw [hs]; simpa using ih h.2 key
  | addCost e k ih => intro key; exact ih h key
  | cond i pt pf k _ _ _ => simp [Prog.keySafe] at h

example : (Prog.sample .flipReinforce [.th] (.addCost .th (.sample (.baseline .normalReinforce) [.c 1, .th, .c 1]
    (.sample .flipEnum [.th] (.ret (.rv 0)))))).keySafe = true := rfl

end GenjaxVerif.Adev
