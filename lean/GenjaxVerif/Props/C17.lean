import GenjaxVerif.Lemmas.Chm
import GenjaxVerif.Props.C18
/-!
# C17 — Choice map queries agree with a finite-map model

Statements about the representation layer (`Chm`, its smart constructors, `getInnerF`,
`filterSelF`, `filterFlagF`, `mkOrF`, `extend`, `selMemF`) against the semantic layer
(`denote : Chm → Path → Option MV`, the reference finite map) of `Model/Chm.lean`.

Strength.  The theorems are proved for ALL maps of the static-address fragment
(`staticOnly c`: `Static`/`Choice` nodes, leaves bare or traced-masked, scalar or 1-D array),
all selections, all flags, ALL lookup paths (static and index components) and every fuel value
for which the model returns a result; `wf` is the representation invariant (`Static.build`:
unique keys, no empty entries) and is *preserved* by every operation (part of each theorem),
so it holds for everything built from `empty`/`choice` by the builders.
`_partial` marks theorems whose hypothesis excludes `Indexed`/`Switch`/`Or` nodes; those node
kinds are modelled branch for branch and tied to the code by the correspondence run, and
`denote` is defined for them, but only the index-level facts below are proved.
`C17_getSelection_full` is REFUTED by the faithful model (`C17_getSelection_refuted`):
`get_selection()` is blind below an index level.
-/
namespace GenjaxVerif.Chm
open Sel

/-- `get_submap` / `get_inner_map` on a static component is the sub-map of the denotation. -/
theorem C17_denote_getInner_partial (k : Nat) (c r : Chm) (x : String) (hso : staticOnly c = true) (hwf : wf c = true)
    (h : getInnerF (k + 1) c (.s x) = .ok r) :
    (∀ p, denote r p = denote c (.s x :: p)) ∧ staticOnly r = true ∧ wf r = true := by
  obtain ⟨g1, g2, _, g4⟩ := getInner_static_spec hso hwf h
  exact ⟨fun p => g4 [] p, g1, g2⟩

/-- `get_submap(*path)` for a static path, iterated. -/
theorem C17_denote_getSubmap_partial (k : Nat) : ∀ (xs : List String) (c r : Chm), staticOnly c = true → wf c = true →
    getSubmapF (k + 1) c (xs.map Comp.s) = .ok r → ∀ p, denote r p = denote c (xs.map Comp.s ++ p) := by
  intro xs
  induction xs with
  | nil => intro c r _ _ h p; have h := pure_ok h; subst h; rfl
  | cons x xs ih =>
    intro c r hso hwf h p
    simp only [List.map_cons, getSubmapF] at h
    obtain ⟨c', hc', h⟩ := bind_ok h
    obtain ⟨g1, g2, g3⟩ := C17_denote_getInner_partial k c c' x hso hwf hc'
    rw [ih c' r g2 g3 h p, g1]; rfl

/-- `|` is a left-biased union (a masked-off value counts as absent): lookup in `a | b` is the
    lookup in `a` if it yields a valid value, else the one in `b`. -/
theorem C17_denote_or_partial (k : Nat) (a b r : Chm) (hsa : staticOnly a = true) (hwa : wf a = true)
    (hsb : staticOnly b = true) (hwb : wf b = true) (h : mkOrF k a b = .ok r) :
    (∀ p, denote r p = orMV (denote a p) (denote b p)) ∧ staticOnly r = true ∧ wf r = true := by
  obtain ⟨o1, o2, o3⟩ := mkOr_spec k a b r hsa hwa hsb hwb h
  exact ⟨fun p => o3 [] p, o1, o2⟩

/-- `mask(False)` leaves no usable value at any path (Python `False` and traced false alike). -/
theorem C17_denote_maskFalse_partial (k : Nat) (c r : Chm) (f : FlagArg) (hf : f.val = false)
    (hso : staticOnly c = true) (hwf : wf c = true) (h : filterFlagF k c f = .ok r) :
    (∀ p, usable (denote r p) = Option.none) ∧ staticOnly r = true ∧ wf r = true := by
  obtain ⟨m1, m2, _, m4⟩ := filterFlag_spec k c f r hso hwf h
  exact ⟨fun p => m4 hf [] p, m1, m2⟩

/-- `mask(True)` changes no lookup. -/
theorem C17_denote_maskTrue_partial (k : Nat) (c r : Chm) (f : FlagArg) (hf : f.val = true)
    (hso : staticOnly c = true) (hwf : wf c = true) (h : filterFlagF k c f = .ok r) :
    (∀ p, denote r p = denote c p) ∧ staticOnly r = true ∧ wf r = true := by
  obtain ⟨m1, m2, m3, _⟩ := filterFlag_spec k c f r hso hwf h
  exact ⟨fun p => m3 hf [] p, m1, m2⟩

/-- `filter(selection)` keeps exactly the entries whose static part is selected (model A's
    `mem`), index components of the lookup being transparent. -/
theorem C17_denote_filter_partial (k : Nat) (c r : Chm) (s : Sel) (hso : staticOnly c = true) (hwf : wf c = true)
    (h : filterSelF k c s = .ok r) :
    (∀ p, denote r p = if mem s (statics p) = true then denote c p else Option.none) ∧
    (∀ q, q ∈ addrs r ↔ q ∈ addrs c ∧ mem s q = true) ∧ staticOnly r = true ∧ wf r = true := by
  obtain ⟨s1, s2, s3, s4⟩ := filterSel_spec k c s r hso hwf h
  exact ⟨fun p => s3 [] p, s4, s1, s2⟩

/-- `extend(x)` / `entry(v, x)` / `C[x].set(v)`: one static prefix component (for every map,
    not only the static fragment); index components before it float through. -/
theorem C17_denote_extend (x : String) (c : Chm) (p : Path) :
    denote (extend c [.s x]) p =
      match splitIdx p with
      | (js, .s y :: q) => if y = x then den c js q else Option.none
      | _ => Option.none := by
  unfold denote
  simp only [extend, List.foldr]
  rw [den_entry_static]
  generalize splitIdx p = sp
  obtain ⟨js, rest⟩ := sp
  cases rest with
  | nil => rfl
  | cons c' q => cases c' <;> simp

/-- `extend(x1, …, xn)` prefixes the address. -/
theorem C17_denote_extend_path (xs : List String) (c : Chm) (q : Path) :
    denote (extend c (xs.map AddrC.s)) (xs.map Comp.s ++ q) = denote c q := by
  induction xs with
  | nil => rfl
  | cons x xs ih =>
    have : extend c ((x :: xs).map AddrC.s) = extend (extend c (xs.map AddrC.s)) [.s x] := rfl
    rw [this, C17_denote_extend]
    simp only [List.map_cons, List.cons_append, splitIdx_s, if_true]
    exact ih

/-- An index level built with a Python-int / traced index answers positionally, by equality
    (for every map below it). -/
theorem C17_denote_extend_idx (c : Chm) (j n : Nat) (q : Path) :
    denote (extend c [.ix (.conc j)]) (.i n :: q) = (if j = n then denote c q else Option.none) ∧
    denote (extend c [.ix (.dyn j)]) (.i n :: q) = andMV (j == n) (denote c q) := by
  unfold denote
  simp only [extend, List.foldr, mkIndexed]
  by_cases he : staticIsEmpty c = true
  · have hc := staticIsEmpty_eq he
    subst hc
    have h1 : staticIsEmpty empty = true := rfl
    simp [h1, andMV]
  · simp only [he, Bool.false_eq_true, if_false]
    constructor <;> rw [den] <;> simp [firstIdx]

/-- The leaves and static prefixes the builders start from are in the fragment and well formed
    (`ChoiceMap.choice`, `ChoiceMap.empty`, `extend` / `entry` / `C[x…].set` with static components). -/
theorem C17_built_base (v : RawLeaf) : staticOnly (mkChoice v) = true ∧ wf (mkChoice v) = true ∧
    staticOnly empty = true ∧ wf empty = true := by
  refine ⟨?_, ?_, by decide, by decide⟩ <;>
    (unfold mkChoice; split <;> simp [empty, staticOnly, staticOnlyL, wf, wfL])

theorem C17_built_extend (xs : List String) (c : Chm) (hso : staticOnly c = true) (hwf : wf c = true) :
    staticOnly (extend c (xs.map AddrC.s)) = true ∧ wf (extend c (xs.map AddrC.s)) = true := by
  induction xs with
  | nil => exact ⟨hso, hwf⟩
  | cons x xs ih =>
    have : extend c ((x :: xs).map AddrC.s) = mkStatic [(x, extend c (xs.map AddrC.s))] := rfl
    rw [this]
    generalize extend c (xs.map AddrC.s) = d at ih ⊢
    by_cases he : staticIsEmpty d = true
    · simp [mkStatic, List.filter, he, staticOnly, staticOnlyL, wf, wfL]
    · simp only [Bool.not_eq_true] at he
      simp [mkStatic, List.filter, he, staticOnly, staticOnlyL, wf, wfL, ih.1, ih.2, keys]

/-- `chm.at[x1, …, xn].set(v)` = `entry(v, x1…xn) | chm`: the new entry wins, the rest is kept. -/
theorem C17_denote_atSet_partial (k : Nat) (e v r : Chm) (xs : List String)
    (hse : staticOnly e = true) (hwe : wf e = true)
    (hsv : staticOnly (extend v (xs.map AddrC.s)) = true) (hwv : wf (extend v (xs.map AddrC.s)) = true)
    (h : mkOrF k (extend v (xs.map AddrC.s)) e = .ok r) (p : Path) :
    denote r p = orMV (denote (extend v (xs.map AddrC.s)) p) (denote e p) :=
  (C17_denote_or_partial k _ e r hsv hwv hse hwe h).1 p

/-- `ChoiceMap.switch` with a Python-int index is that branch. -/
theorem C17_switch_conc (k : Nat) (i : Int) (cs : List Chm) (r : Chm) (h : mkSwitchF (k + 1) (.conc i) cs = .ok r) :
    pyIndex cs i = some r := by
  simp only [mkSwitchF] at h
  split at h
  · have h := pure_ok h; subst h; assumption
  · simp [throw, throwThe, MonadExceptOf.throw] at h

/-- Full statement about `get_selection()`: it selects exactly the static parts of the map's
    addresses, for every well-formed map. -/
def C17_getSelection_full : Prop :=
  ∀ (k : Nat) (c : Chm) (q : List String) (b : Bool), wf c = true → selMemF (k + 1) c q = .ok b → b = decide (q ∈ addrs c)

/-- Proved on the static fragment. -/
theorem C17_getSelection_mem_partial (k : Nat) (c : Chm) (q : List String) (b : Bool)
    (hso : staticOnly c = true) (hwf : wf c = true) (h : selMemF (k + 1) c q = .ok b) :
    b = decide (q ∈ addrs c) := selMem_spec q k c b hso hwf h

/-- The faithful model refutes the full statement: `C["x", 2].set(5).get_selection()["x"]`. -/
theorem C17_getSelection_refuted : ¬ C17_getSelection_full := by
  intro h
  have := h 5 (stat [("x", indexed (choice (.plain (.int 5))) (.conc 2))]) ["x"] false (by decide) rfl
  revert this; decide

/-- `filter(get_selection())` of the map itself is the identity on the static fragment. -/
theorem C17_filter_own_selection_partial (k : Nat) (c r : Chm) (s : Sel) (hso : staticOnly c = true) (hwf : wf c = true)
    (hs : ∀ q, mem s q = decide (q ∈ addrs c)) (h : filterSelF k c s = .ok r) (q : List String) :
    q ∈ addrs r ↔ q ∈ addrs c := by
  rw [(C17_denote_filter_partial k c r s hso hwf h).2.1 q, hs q]; simp

/-! Non-vacuity and sanity (tests, labelled as such): concrete maps satisfying the hypotheses. -/
def exA : Chm := stat [("x", choice (.masked false (.int 4))), ("y", stat [("z", choice (.plain (.arr [1, 2, 3])))])]
def exB : Chm := stat [("x", choice (.plain (.int 7))), ("w", choice (.plain (.int 9)))]
example : staticOnly exA = true ∧ wf exA = true ∧ staticOnly exB = true ∧ wf exB = true := by decide
example : (match mkOrF 10 exA exB with
    | .ok r => denote r [.s "x"] == some ⟨true, .int 7⟩ && denote r [.s "y", .s "z", .i 1] == some ⟨true, .int 2⟩
               && denote r [.i 1, .s "y", .s "z"] == some ⟨true, .int 2⟩ && denote r [.s "w"] == some ⟨true, .int 9⟩
    | _ => false) = true := by decide
example : (match filterSelF 10 exA (atAddr [some "y"]) with
    | .ok r => denote r [.s "y", .s "z"] == some ⟨true, .arr [1, 2, 3]⟩ && denote r [.s "x"] == Option.none
    | _ => false) = true := by decide
example : (match filterFlagF 10 exA (.conc false) with
    | .ok r => denote r [.s "x"] == some ⟨false, .int 4⟩ && denote r [.s "y", .s "z"] == Option.none
    | _ => false) = true := by decide
example : (match selMemF 10 exA ["y", "z"], selMemF 10 exA ["y"] with | .ok true, .ok false => true | _, _ => false) = true := by decide
-- index levels and switch (modelled; tests only)
example : denote (extend (choice (.plain (.int 5))) [.s "x", .ix (.conc 2)]) [.s "x", .i 2] = some ⟨true, .int 5⟩ := by decide
example : (match mkSwitchF 10 (.dyn 1) [exB, exA] with
    | .ok r => denote r [.s "y", .s "z", .i 0] == some ⟨true, .int 1⟩ && usable (denote r [.s "w"]) == Option.none
    | _ => false) = true := by decide

end GenjaxVerif.Chm

namespace GenjaxVerif.Chm
/-- `get_submap` / `get_inner_map` on an index component (array leaves: every leaf below is
    sliced) is the sub-map of the denotation; wherever the index sits relative to the static
    components (`chm[i, "x"]` and `chm["x", i]` agree). -/
theorem C17_denote_getInner_idx_partial (k : Nat) (c r : Chm) (n : Nat) (hso : staticOnly c = true)
    (h : getInnerF (k + 1) c (.i n) = .ok r) (p : Path) : denote r p = denote c (.i n :: p) := by
  unfold denote
  rw [den_idx_cons c hso]
  cases c with
  | stat m => simp only [getInnerF] at h; exact sliceAll_den n _ r hso h [] p
  | choice l => simp only [getInnerF] at h; exact sliceAll_den n _ r hso h [] p
  | indexed _ _ => simp [staticOnly] at hso
  | switch _ _ => simp [staticOnly] at hso
  | or _ _ => simp [staticOnly] at hso

example : (match getInnerF 5 exA (.i 1) with | .ok _ => false | .error _ => true) = true := by decide
example : (match getInnerF 5 (stat [("y", choice (.plain (.arr [1, 2, 3])))]) (.i 1) with
    | .ok r => denote r [.s "y"] == some ⟨true, .int 2⟩ | _ => false) = true := by decide
end GenjaxVerif.Chm
