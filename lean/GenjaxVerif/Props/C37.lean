import GenjaxVerif.Lemmas.HMM
/-!
# C37 — DiscreteHMM posterior density and sampler are exact  (PARTIAL)

Statements only; the model is `Model/HMM.lean` (an arbitrary finite HMM over ℚ in the
probability domain).  Every theorem is for ALL state counts, ALL sequence lengths and ALL
rational matrices satisfying the stated (decidable) hypotheses — induction on the observation
sequence; nothing is bounded.

What is proved
* `estimate_logpdf`'s scan computes the joint `p(x, y)`; dividing by the marginal likelihood
  gives a density that sums to one over all latent sequences;
* the forward recursion's total mass is the marginal likelihood (`data_logpdf`'s specification);
* forward-filtering-backward-sampling returns `seq` with probability exactly
  `seqPosterior seq` — for the forward pass AS WRITTEN only when the transition matrix is
  symmetric (`C37_ffbs_eq_posterior_partial`); the full statement is refuted on an asymmetric
  matrix (`C37_refuted`), and holds without that hypothesis for the one-line repaired forward
  pass (`C37_ffbs_repaired_eq_posterior`);
* the configuration's `scaled_circulant` logits are symmetric whenever `2·k ≤ N`.

What is outside the model: TFP's `HiddenMarkovModel.log_prob` (its specification `dataLik` is
used instead; tied numerically), `softmax`/`exp`/`log` and float32 log-domain arithmetic,
`jax.random.categorical`'s actual sampling (its law is taken to be `categorical`), PRNG quality.
-/
namespace GenjaxVerif.HMM

/-! ## `estimate_logpdf` -/

/-- The scan `_inner` in `latent_sequence_posterior` (carry = next row of the transition
    matrix) computes the chain-rule joint `init[x₀]·obs[x₀,y₀]·Π trans[x_{t-1},x_t]·obs[x_t,y_t]`. -/
theorem C37_estimate_logpdf_spec (h : Hmm) (seq ys : List Nat) :
    scanJoint h seq ys = joint h seq ys :=
  scanJoint_eq_joint h seq ys

/-- `estimate_logpdf` is `joint / dataLik` exactly when the sequence is non-empty and the
    lengths agree, … -/
theorem C37_estimate_ok (h : Hmm) (seq ys : List Nat) (h0 : ys.length ≠ 0)
    (hl : seq.length = ys.length) :
    estimate h seq ys = .ok (joint h seq ys / dataLik h ys) := by
  simp [estimate, h0, hl, seqPosterior, scanJoint_eq_joint]

/-- … and an error otherwise (never a silent number): TFP's `num_steps ≥ 1` check, then the
    scan's length check. -/
theorem C37_estimate_errors (h : Hmm) (seq ys : List Nat) :
    (ys.length = 0 → estimate h seq ys = .error .emptySequence) ∧
    (ys.length ≠ 0 → seq.length ≠ ys.length → estimate h seq ys = .error .lengthMismatch) := by
  constructor
  · intro h0; simp [estimate, h0]
  · intro h0 hl; simp [estimate, h0, hl]

/-- `data_logpdf`'s specification is the brute-force marginal likelihood `Σ_seq joint seq ys`. -/
theorem C37_data_logpdf_spec (h : Hmm) (ys : List Nat) (h0 : ys.length ≠ 0) :
    dataLogpdf h ys = .ok (((allSeqs h.n ys.length).map fun s => joint h s ys).sum) := by
  simp [dataLogpdf, h0, dataLik]

/-- The table the driver prints is `seqPosterior` of every sequence. -/
theorem C37_posteriorTable_spec (h : Hmm) (ys : List Nat) :
    posteriorTable h ys = (allSeqs h.n ys.length).map fun s => seqPosterior h s ys := rfl

/-- The posterior density is normalised over ALL latent sequences of the right length. -/
theorem C37_posterior_normalised (h : Hmm) (ys : List Nat) (hZ : dataLik h ys ≠ 0) :
    ((allSeqs h.n ys.length).map fun s => seqPosterior h s ys).sum = 1 := by
  unfold seqPosterior
  rw [sum_map_div]
  have : ((allSeqs h.n ys.length).map fun s => scanJoint h s ys) =
      (allSeqs h.n ys.length).map fun s => joint h s ys :=
    List.map_congr_left fun s _ => scanJoint_eq_joint h s ys
  rw [this]
  exact div_self hZ

/-- Strict positivity of the tensors (true of every `softmax` output) makes the marginal
    likelihood positive, so the normalisation hypothesis above is met. -/
theorem C37_dataLik_pos (h : Hmm) (m : Nat) (hp : h.pos m = true) (hn : 0 < h.n) (ys : List Nat)
    (hys : ∀ y ∈ ys, y < m) : 0 < dataLik h ys :=
  dataLik_pos hp hn hys

/-! ## `data_logpdf` / forward pass -/

/-- Forward pass as written: its total mass `Σ_x α_T(x)` is the marginal likelihood
    `Σ_seq joint seq ys` — PROVIDED the transition matrix is symmetric (the code sums
    `prev[j]·T[i,j]` where the recursion needs `prev[j]·T[j,i]`). -/
theorem C37_forward_total (h : Hmm) (ys : List Nat) (hs : h.symm = true) :
    forwardTotal .asWritten h ys = dataLik h ys :=
  forwardTotal_eq_dataLik (fwdOK_asWritten hs) ys

/-- The repaired forward pass needs no hypothesis at all. -/
theorem C37_forward_total_repaired (h : Hmm) (ys : List Nat) :
    forwardTotal .textbook h ys = dataLik h ys :=
  forwardTotal_eq_dataLik (fwdOK_textbook h) ys

/-! ## `random_weighted` (forward filtering, backward sampling) -/

/-- Full statement for the code as it is: FFBS returns every latent sequence with exactly its
    posterior probability, for every strictly positive HMM. -/
def C37_ffbs_full : Prop :=
  ∀ (h : Hmm) (m : Nat) (ys seq : List Nat), h.pos m = true → (∀ y ∈ ys, y < m) →
    seq ∈ allSeqs h.n ys.length → ffbsProb .asWritten h ys seq = seqPosterior h seq ys

/-- Proved part: the same statement under the explicit decidable hypothesis `h.symm`.
    Missing: asymmetric transition matrices — there the statement is FALSE of the code
    (`C37_refuted`).  `DiscreteHMMConfiguration` yields an asymmetric matrix exactly when
    `N ≥ 3`, `2·adjacency_distance_trans > N` and `sigma_trans ≠ 1` (see `C37_config_trans_symm`). -/
theorem C37_ffbs_eq_posterior_partial (h : Hmm) (m : Nat) (ys seq : List Nat) (hs : h.symm = true)
    (hp : h.pos m = true) (hys : ∀ y ∈ ys, y < m) (hseq : seq ∈ allSeqs h.n ys.length) :
    ffbsProb .asWritten h ys seq = seqPosterior h seq ys :=
  ffbsProb_eq_seqPosterior (fwdOK_asWritten hs) hp hys hseq

/-- With the one-line repair of `t_branch` the full statement holds (no symmetry needed). -/
theorem C37_ffbs_repaired_eq_posterior (h : Hmm) (m : Nat) (ys seq : List Nat)
    (hp : h.pos m = true) (hys : ∀ y ∈ ys, y < m) (hseq : seq ∈ allSeqs h.n ys.length) :
    ffbsProb .textbook h ys seq = seqPosterior h seq ys :=
  ffbsProb_eq_seqPosterior (fwdOK_textbook h) hp hys hseq

/-- The table `ffbsDist` lists every latent sequence once with its posterior probability, and
    (hence) is a probability distribution. -/
theorem C37_ffbsDist_eq_posterior (h : Hmm) (m : Nat) (ys : List Nat) (hs : h.symm = true)
    (hp : h.pos m = true) (hn : 0 < h.n) (hys : ∀ y ∈ ys, y < m) :
    ffbsDist .asWritten h ys = (allSeqs h.n ys.length).map (fun s => (s, seqPosterior h s ys)) ∧
    ((ffbsDist .asWritten h ys).map (·.2)).sum = 1 := by
  have e : ffbsDist .asWritten h ys = (allSeqs h.n ys.length).map (fun s => (s, seqPosterior h s ys)) :=
    List.map_congr_left fun s hsq => by
      rw [← C37_ffbs_eq_posterior_partial h m ys s hs hp hys hsq]; rfl
  refine ⟨e, ?_⟩
  rw [e, List.map_map]
  exact C37_posterior_normalised h ys (dataLik_pos hp hn hys).ne'

/-! ### Refutation of the full statement, and non-vacuity of the hypotheses -/

/-- Witness: 3 states, the circulant of the asymmetric column `(1/2, 1/6, 1/3)` (what
    `DiscreteHMMConfiguration(3, 2, …)` produces up to the values), prior = row `int(3/2) = 1`. -/
def C37_witness : Hmm :=
  { init := [1/6, 1/2, 1/3],
    trans := [[1/2, 1/3, 1/6], [1/6, 1/2, 1/3], [1/3, 1/6, 1/2]],
    obs := [[1/2, 1/4, 1/4], [1/4, 1/2, 1/4], [1/4, 1/4, 1/2]] }

/-- A symmetric, strictly positive, stochastic 3-state HMM (circulant of `(1/2, 1/4, 1/4)`). -/
def C37_symmetric_example : Hmm :=
  { init := [1/4, 1/2, 1/4],
    trans := [[1/2, 1/4, 1/4], [1/4, 1/2, 1/4], [1/4, 1/4, 1/2]],
    obs := [[2/3, 1/6, 1/6], [1/6, 2/3, 1/6], [1/6, 1/6, 2/3]] }

/-- On the witness the sampler as written returns `[0, 1]` with probability `4/55`, the
    posterior is `1/14`; the as-written forward total is `55/576`, the likelihood `7/72`. -/
theorem C37_witness_values :
    C37_witness.pos 3 = true ∧ C37_witness.stochastic 3 = true ∧ C37_witness.symm = false ∧
    ffbsProb .asWritten C37_witness [0, 2] [0, 1] = 4 / 55 ∧
    seqPosterior C37_witness [0, 1] [0, 2] = 1 / 14 ∧
    forwardTotal .asWritten C37_witness [0, 2] = 55 / 576 ∧
    dataLik C37_witness [0, 2] = 7 / 72 := by
  decide +kernel

/-- The full statement is false of the faithful model: symmetry is needed by the code as written. -/
theorem C37_refuted : ¬ C37_ffbs_full := by
  intro hfull
  have := hfull C37_witness 3 [0, 2] [0, 1] (by decide +kernel) (by decide) (by decide +kernel)
  revert this
  decide +kernel

/-- … and so is the as-written forward total without symmetry. -/
theorem C37_refuted_without_symmetry :
    ¬ (∀ (h : Hmm) (ys : List Nat), forwardTotal .asWritten h ys = dataLik h ys) := by
  intro hall
  have := hall C37_witness [0, 2]
  revert this
  decide +kernel

/-- Non-vacuity: the hypotheses of the partial theorems hold of a non-trivial HMM, a
    non-trivial observation sequence and every latent sequence; the values are not degenerate. -/
example : C37_symmetric_example.symm = true ∧ C37_symmetric_example.pos 3 = true ∧
    C37_symmetric_example.stochastic 3 = true ∧ 0 < C37_symmetric_example.n ∧
    (∀ y ∈ [0, 2, 1], y < 3) ∧ [1, 2, 2] ∈ allSeqs C37_symmetric_example.n [0, 2, 1].length ∧
    dataLik C37_symmetric_example [0, 2, 1] ≠ 0 ∧
    ffbsProb .asWritten C37_symmetric_example [0, 2, 1] [1, 2, 2] ≠ 0 ∧
    ffbsProb .asWritten C37_symmetric_example [0, 2, 1] [1, 2, 2]
      ≠ ffbsProb .asWritten C37_symmetric_example [0, 2, 1] [2, 2, 1] := by
  decide +kernel

/-- A *test* (not the theorem): the instance of `C37_ffbs_eq_posterior_partial` by evaluation. -/
example : ffbsProb .asWritten C37_symmetric_example [0, 2, 1] [1, 2, 2]
    = seqPosterior C37_symmetric_example [1, 2, 2] [0, 2, 1] := by
  decide +kernel

example : estimate C37_symmetric_example [1, 2] [0, 2, 1] = .error .lengthMismatch ∧
    estimate C37_symmetric_example [] [] = .error .emptySequence ∧
    [0, 2, 1].length ≠ 0 ∧ [1, 2, 2].length = [0, 2, 1].length := by
  decide +kernel

/-! ## Which configurations are symmetric -/

/-- `scipy.linalg.circulant` of a column with `c[m] = c[N-m]` is a symmetric matrix. -/
theorem C37_circulant_symm (c : List Rat)
    (hc : ∀ m, 0 < m → m < c.length → vget c m = vget c (c.length - m)) (i j : Nat)
    (hi : i < c.length) (hj : j < c.length) : mget (circulant c) i j = mget (circulant c) j i :=
  circulant_symm c hc hi hj

/-- `scaled_circulant(N, k, ε, δ)` is symmetric whenever the truncation does not wrap around the
    ring (`2·k ≤ N`), for all ε, δ.  (Row-`softmax` preserves this: all rows of a circulant are
    permutations of one another and share one normaliser — that step involves `exp` and is
    checked numerically by the harness.) -/
theorem C37_config_trans_symm (N k : Nat) (e d : Rat) (hk : 2 * k ≤ N) (i j : Nat) (hi : i < N)
    (hj : j < N) :
    mget (circulant (source N k e d)) i j = mget (circulant (source N k e d)) j i := by
  have hl := length_source N k e d
  refine circulant_symm _ ?_ (by omega) (by omega)
  intro m h0 hm
  rw [hl] at hm ⊢
  exact source_symm N k e d hk h0 hm

/-- Non-vacuity / necessity: `N = 3, k = 2, ε = 1/2` wraps and is NOT symmetric. -/
example : mget (circulant (source 3 2 (1/2) 2)) 0 1 ≠ mget (circulant (source 3 2 (1/2) 2)) 1 0 := by
  decide +kernel

example : (2 * 2 ≤ 5) ∧ circulant (source 5 2 (1/2) 2) =
    [[1, 1/2, 1/4, 1/4, 1/2], [1/2, 1, 1/2, 1/4, 1/4], [1/4, 1/2, 1, 1/2, 1/4],
     [1/4, 1/4, 1/2, 1, 1/2], [1/2, 1/4, 1/4, 1/2, 1]] := by
  decide +kernel

end GenjaxVerif.HMM
