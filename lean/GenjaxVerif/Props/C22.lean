import GenjaxVerif.Lemmas.GFIReplay
import GenjaxVerif.Props.GFITest
/-!
# C22 — the static language traces exactly the visited addresses, once each
-/
namespace GenjaxVerif.GFI
open GenjaxVerif CMap

/-- The recorded subtraces of a static function are exactly its `trace` statements, in execution
    order (one entry per statement, under that statement's — possibly tuple — address), for every
    operation; hence the choice map's top-level addresses are exactly the visited ones. -/
theorem C22_records_exactly_the_visited_addresses (ds : DistSem) (m : Mode) (b : Body) (i : In) (r : Res)
    (h : run ds m (.static b) i = .ok r) :
    ∃ ret subs, r.tr = .static i.args ret subs ∧ ShapeBody b subs ∧
      r.tr.choices = Trace.choicesAL subs := by
  have hs := run_shape ds m (.static b) i r h
  simp only [run, staticRun, bind_ok, pure_ok] at h
  obtain ⟨env, _, olds, _, ⟨st, v⟩, _, rfl⟩ := h
  exact ⟨v, st.subs, rfl, by simpa [Shape] using hs, rfl⟩

/-- A tuple address nests hierarchically: its entries sit under the address's components in order,
    and the sub-map at the address is the callee's choice map. -/
theorem C22_tuple_addresses_nest (addr : List String) (c : CMap) :
    CMap.subStatic (CMap.pre (addr.map Comp.s) c) addr = c :=
  subStatic_pre_same addr c

/-- Tracing an address twice raises `AddressReuse`, in every operation: the second `trace` at an
    address already recorded fails before the callee runs. -/
theorem C22_address_reuse (m : Mode) (i : In) (olds : List (List String × Trace)) (st : SState)
    (addr : List String) (a : List Val) (t : Trace) (h : lookupSub st.subs addr = some t) :
    bindIn m i olds st addr a = .error .reuse := by
  simp [bindIn, h]

theorem C22_address_reuse_body (ds : DistSem) (m : Mode) (addr : List String) (p : Prog) (aes : List Expr)
    (rest : Body) (i : In) (olds env) (st : SState) (t : Trace) (h : lookupSub st.subs addr = some t) :
    ∀ x, runBody ds m (.bind addr p aes rest) i olds env st ≠ .ok x := by
  intro x hx
  simp only [runBody, bind_ok] at hx
  obtain ⟨a, _, i', hi', _⟩ := hx
  rw [C22_address_reuse m i olds st addr a t h] at hi'
  cases hi'

/-- `assess` raises `MissingAddress` exactly when a visited (not yet recorded) address has an
    empty sub-map in the supplied choices. -/
theorem C22_missing_address_iff (i : In) (olds : List (List String × Trace)) (st : SState)
    (addr : List String) (a : List Val) (h : lookupSub st.subs addr = none) :
    bindIn .assess i olds st addr a = .error .missing ↔ (CMap.subStatic i.c addr).isEmpty = true := by
  simp only [bindIn, h, bindOld]
  constructor
  · intro hh
    by_cases hc : (CMap.subStatic i.c addr).isEmpty = true
    · exact hc
    · simp [hc] at hh
  · intro hc; simp [hc]

/-- tests -/
example : run Test.ds .sim (.static (.bind ["x"] (.dist 0) [] (.bind ["x"] (.dist 0) [] (.ret (.lit 0)))))
    Test.in0 = .error .reuse := by rfl
example : run Test.ds .assess Test.prog1 { Test.in1 with c := [([.s "x"], .plain 1)] } = .error .missing := by rfl

end GenjaxVerif.GFI
