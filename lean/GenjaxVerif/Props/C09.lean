import GenjaxVerif.Lemmas.IR
/-!
# C09 — the incremental interpreter computes the same values, with sound change tags

Statements about `evalIncr` (`IncrementalInterpreter.eval_jaxpr_incremental`), for ALL
jaxprs (any equations, any nesting inside `params`, unbound variables, arity mismatches,
DropVars, literal and duplicated outvars), ALL primitive semantics `sem` (so `cond`,
`scan`, `while`, `pjit`, initial-style primitives are covered like any other primitive),
all constants, inputs and taggings.  The handler slot is `None` or any handler that
handles no primitive (`NoHandle`).  Proofs: induction on the equation list with an
environment invariant (`Lemmas/IR.lean`).
-/
namespace GenjaxVerif.IR

/-- Primal outputs of the incremental run (read through `Diff.tree_primal`) are exactly the
    result of ordinary evaluation — including which exception is raised, if any. -/
theorem C09_incr_primal (sem : Sem) (h : Option (Handler IVal)) (hno : NoHandle h) (j : Jaxpr)
    (consts xs : List Val) (tags : List Tag) (hlen : xs.length = tags.length) :
    (evalIncr sem h j consts xs tags).map (List.map IVal.primal) = evalPlain sem j consts xs := by
  rw [evalIncr_none_of_noHandle sem h hno]
  have h1 := evalIncr_sim_stateful sem Handler.noop (fun _ => rfl) j consts xs tags hlen
  have h2 := evalStateful_eq_plain_override sem Handler.noop j consts xs
  rw [Handler.override_of_noHandle sem _ (fun _ => rfl)] at h2
  rw [← h2]
  cases hi : evalIncr sem none j consts xs tags <;> cases hs : evalStateful sem Handler.noop j consts xs <;>
    simp only [hi, hs, ExRel] at h1
  · simp [Except.map, h1]
  · simp [Except.map, map_primal_of_all₂ h1]

/-- Error branch: a tangent list of the wrong length is rejected (`tree_map` / `safe_map`). -/
theorem C09_incr_tag_mismatch (sem : Sem) (h : Option (Handler IVal)) (j : Jaxpr)
    (consts xs : List Val) (tags : List Tag) (hlen : xs.length ≠ tags.length) :
    evalIncr sem h j consts xs tags = .error .arity := by
  unfold evalIncr
  cases hw : Env.writeMany ([] : Env IVal) (j.constvars.map .var) (consts.map fun c => IVal.diff c .noChange) with
  | error x => rw [Env.writeMany_error hw]; rfl
  | ok e => simp [Bind.bind, Except.bind, treeDiff_arity hlen]

/-- Noninterference.  Two runs on inputs that agree wherever the tag is `NoChange`: if both
    succeed, the outputs have the same representation and the same tags, and every output
    tagged `NoChange` (or left raw) has the same value in both runs.  (That both runs
    succeed is the honest form of "the primitives' result arity does not depend on the
    changed values": arity is fixed by each equation's binder list, and a run with a
    different arity fails.) -/
theorem C09_noninterference (sem : Sem) (h : Option (Handler IVal)) (hno : NoHandle h) (j : Jaxpr)
    (consts xs ys : List Val) (tags : List Tag) (hag : AgreeOn tags xs ys) (o1 o2 : List IVal)
    (h1 : evalIncr sem h j consts xs tags = .ok o1) (h2 : evalIncr sem h j consts ys tags = .ok o2) :
    All₂ IVal.sim o1 o2 := by
  rw [evalIncr_none_of_noHandle sem h hno] at h1 h2
  exact evalIncr_sim sem j consts xs ys tags hag o1 o2 h1 h2

/-- The same, read output by output: equal tags everywhere, equal values at `NoChange`. -/
theorem C09_noninterference_pointwise (sem : Sem) (h : Option (Handler IVal)) (hno : NoHandle h) (j : Jaxpr)
    (consts xs ys : List Val) (tags : List Tag) (hag : AgreeOn tags xs ys) (o1 o2 : List IVal)
    (h1 : evalIncr sem h j consts xs tags = .ok o1) (h2 : evalIncr sem h j consts ys tags = .ok o2) :
    o1.length = o2.length ∧ o1.map IVal.tangent = o2.map IVal.tangent ∧
    ∀ (i : Nat) (a b : IVal), o1[i]? = some a → o2[i]? = some b → a.tangent = .noChange → a.primal = b.primal := by
  have hs := C09_noninterference sem h hno j consts xs ys tags hag o1 o2 h1 h2
  refine ⟨hs.length_eq, ?_, ?_⟩
  · clear h1 h2
    induction hs with
    | nil => rfl
    | cons hab _ ih => simp only [List.map_cons, IVal.sim_tangent hab, ih]
  · intro i a b ha hb ht
    have := hs.get? i
    rw [ha, hb] at this
    exact IVal.sim_primal this ht

/-- Tags do not depend on values at all: they are determined by the input tags. -/
theorem C09_tags_value_independent (sem : Sem) (h : Option (Handler IVal)) (hno : NoHandle h) (j : Jaxpr)
    (consts xs ys : List Val) (tags : List Tag) (hag : AgreeOn tags xs ys) (o1 o2 : List IVal)
    (h1 : evalIncr sem h j consts xs tags = .ok o1) (h2 : evalIncr sem h j consts ys tags = .ok o2) :
    o1.map IVal.tangent = o2.map IVal.tangent :=
  (C09_noninterference_pointwise sem h hno j consts xs ys tags hag o1 o2 h1 h2).2.1

/-- All inputs `NoChange` ⇒ all outputs `NoChange` (constvars and literals count as `NoChange`). -/
theorem C09_tags_monotone (sem : Sem) (h : Option (Handler IVal)) (hno : NoHandle h) (j : Jaxpr)
    (consts xs : List Val) (tags : List Tag) (hall : ∀ t ∈ tags, t = Tag.noChange) (o : List IVal)
    (h1 : evalIncr sem h j consts xs tags = .ok o) : ∀ d ∈ o, d.tangent = .noChange := by
  rw [evalIncr_none_of_noHandle sem h hno] at h1
  have hr := evalIncr_noChange sem j consts xs tags hall
  simp only [h1, ExRel] at hr
  exact all₂_isNoChange_mem hr

/-- A handler that handles nothing is the same as no handler. -/
theorem C09_nohandle_eq_none (sem : Sem) (h : Option (Handler IVal)) (hno : NoHandle h) (j : Jaxpr)
    (consts xs : List Val) (tags : List Tag) :
    evalIncr sem h j consts xs tags = evalIncr sem none j consts xs tags :=
  evalIncr_none_of_noHandle sem h hno j consts xs tags

/-- The propagation rule itself: outputs are `NoChange` iff every input tangent is. -/
theorem C09_default_rule (sem : Sem) (p : String) (ps : Params) (ds : List IVal) (out : PrimOut Val)
    (hs : sem p ps (ds.map IVal.primal) = .ok out) :
    defaultRule sem p ps ds =
      .ok (out.map fun v => IVal.diff v (if ds.all (fun d => d.tangent = .noChange) then .noChange else .unknownChange)) := by
  simp [defaultRule, hs, checkNoChange, Bind.bind, Except.bind, pure, Except.pure]

/-! ## Non-vacuity: a concrete program exercising constvars, a DropVar, a literal operand, a
    literal outvar, a duplicated outvar and a multi-result primitive. -/

private def sc (i : Int) : Val := ⟨.i32, [], [i]⟩

private def toySem : Sem := fun p _ vs =>
  match p, vs with
  | "add", [a, b] => .ok (.one (sc (a.data.headD 0 + b.data.headD 0)))
  | "dup", [a] => .ok (.many [a, a])
  | _, _ => .error (.prim "unknown")

private def prog : Jaxpr := .mk [9] [0, 1]
  [ .mk "add" false [] [.var 0, .var 9] [.var 2],
    .mk "dup" true [] [.var 1] [.var 3, .drop],
    .mk "add" false [] [.var 2, .lit (sc 0)] [.var 4] ]
  [.var 4, .var 3, .lit (sc 7), .var 2, .var 2]

example : evalIncr toySem none prog [sc 5] [sc 1, sc 2] [.noChange, .unknownChange]
    = .ok [.diff (sc 6) .noChange, .diff (sc 2) .unknownChange, .raw (sc 7), .diff (sc 6) .noChange,
           .diff (sc 6) .noChange] := rfl
example : evalIncr toySem none prog [sc 5] [sc 1, sc 40] [.noChange, .unknownChange]
    = .ok [.diff (sc 6) .noChange, .diff (sc 40) .unknownChange, .raw (sc 7), .diff (sc 6) .noChange,
           .diff (sc 6) .noChange] := rfl
example : AgreeOn [.noChange, .unknownChange] [sc 1, sc 2] [sc 1, sc 40] := by simp [AgreeOn]
example : evalPlain toySem prog [sc 5] [sc 1, sc 2] = .ok [sc 6, sc 2, sc 7, sc 6, sc 6] := rfl
example : NoHandle (some (Handler.noop : Handler IVal)) := fun h' hh p => by cases hh; rfl
example : ∀ t ∈ [Tag.noChange, Tag.noChange], t = Tag.noChange := by simp
example : evalIncr toySem none prog [sc 5] [sc 1, sc 2] [.noChange, .noChange]
    = .ok [.diff (sc 6) .noChange, .diff (sc 2) .noChange, .raw (sc 7), .diff (sc 6) .noChange,
           .diff (sc 6) .noChange] := rfl
/-- error cases are real: unbound variable, arity mismatch -/
example : evalIncr toySem none (.mk [] [0] [] [.var 3]) [] [sc 1] [.noChange] = .error (.unbound 3) := rfl
example : evalIncr toySem none prog [sc 5] [sc 1, sc 2] [.noChange] = .error .arity := rfl

end GenjaxVerif.IR
