import GenjaxVerif.Lemmas.Infer
import GenjaxVerif.Lemmas.FinProbInfer
/-!
# C26 — Importance and SMC return properly weighted particles and unbiased evidence

Log-domain bookkeeping (over the abstract interface `GF`, every target, proposal, key):
particle weights, constraint satisfaction, `ChangeTarget` reweighting, `random_weighted`
returning only unconstrained choices, key routing.  Probability-domain unbiasedness (over
finite discrete trees on ℚ): `E[(1/K) Σ exp wᵢ] = Z` for every K ≥ 1 and every exact proposal
covering the support.

Refuted on the pinned tree: key independence of `ImportanceK.run_smc` (`C26_keys_refuted`).
-/
namespace GenjaxVerif.Infer
open Alg

variable {A T : Type}

/-! ## Particle weights -/

/-- `Importance.run_smc` with a proposal: one particle, obtained by `generate` under
    (observations ∪ proposed choices) with key `child k 0`; its log-weight is that
    `generate` weight minus the weight reported by the proposal (run with key `child k 1`). -/
theorem C26_importance_weight (v : Variant) (t : Target A T) (q : SD A T) (k : Key) :
    runSmc v (importance t (some q)) k =
      [((t.p.generate (child k 0) (merge t.constraint (q.randomWeighted (child k 1) t).2) t.args).1,
        (t.p.generate (child k 0) (merge t.constraint (q.randomWeighted (child k 1) t).2) t.args).2
          - (q.randomWeighted (child k 1) t).1)] := by
  simp [runSmc, Target.importance, impQKey, impTKey]

/-- Without a proposal the log-weight is the `generate` weight of the observations. -/
theorem C26_importance_weight_no_proposal (v : Variant) (t : Target A T) (k : Key) :
    runSmc v (importance t Option.none) k =
      [((t.p.generate (child k 0) (merge t.constraint []) t.args).1,
        (t.p.generate (child k 0) (merge t.constraint []) t.args).2)] := by
  simp [runSmc, Target.importance, impTKey]

/-- `ImportanceK.run_smc`: K particles; particle `i` is weighted exactly like `Importance`'s,
    with the proposal run on `impKQKey k i` and `generate` on `impKTKey v k i`. -/
theorem C26_importanceK_weight (v : Variant) (t : Target A T) (q : SD A T) (K : Nat) (k : Key) (i : Nat)
    (hi : i < K) :
    (runSmc v (importanceK t (some q) K) k)[i]? =
      some ((t.p.generate (impKTKey v k i) (merge t.constraint (q.randomWeighted (impKQKey k i) t).2) t.args).1,
        (t.p.generate (impKTKey v k i) (merge t.constraint (q.randomWeighted (impKQKey k i) t).2) t.args).2
          - (q.randomWeighted (impKQKey k i) t).1) := by
  simp [runSmc, Target.importance, hi]

theorem C26_importanceK_weight_no_proposal (v : Variant) (t : Target A T) (K : Nat) (k : Key) (i : Nat)
    (hi : i < K) :
    (runSmc v (importanceK t Option.none K) k)[i]? =
      some ((t.p.generate (impKQKey k i) (merge t.constraint []) t.args).1,
        (t.p.generate (impKQKey k i) (merge t.constraint []) t.args).2) := by
  simp [runSmc, Target.importance, hi]

theorem C26_num_particles (v : Variant) (t : Target A T) (q : Option (SD A T)) (K : Nat) (k : Key) :
    (runSmc v (importanceK t q K) k).length = K ∧ (runSmc v (importance t q) k).length = 1 := by
  cases q <;> simp [runSmc]

/-! ## ChangeTarget -/

/-- `ChangeTarget._reweight`: the new log-weight is the old one plus the `generate` weight
    under the new target (new observations ∪ the particle's latents) minus the particle's old
    score. -/
theorem C26_change_target_weight (prevT newT : Target A T) (k : Key) (tr : T) (w : Int) :
    reweight prevT newT k tr w =
      ((newT.p.generate k (merge newT.constraint (prevT.filterToUnconstrained (prevT.p.choices tr))) newT.args).1,
       (newT.p.generate k (merge newT.constraint (prevT.filterToUnconstrained (prevT.p.choices tr))) newT.args).2
         - prevT.p.score tr + w) := by
  simp [reweight, Target.importance]

/-- Every particle of `ChangeTarget(prev, t).run_smc(k)` is the reweighting of the particle
    of `prev.run_smc(k)` at the same index, with key `child k i`. -/
theorem C26_change_target_particles (v : Variant) (prev : Alg A T) (t : Target A T) (k : Key) (i : Nat)
    (tr : T) (w : Int) (h : (runSmc v prev k)[i]? = some (tr, w)) :
    (runSmc v (changeTarget prev t) k)[i]? = some (reweight prev.finalTarget t (child k i) tr w) := by
  have hi : i < (runSmc v prev k).length := by
    rcases Nat.lt_or_ge i (runSmc v prev k).length with h' | h'
    · exact h'
    · rw [List.getElem?_eq_none h'] at h; cases h
  have hget : (runSmc v prev k)[i] = (tr, w) := by
    rw [List.getElem?_eq_getElem hi] at h; exact Option.some.inj h
  simp [runSmc, reweightAll, hi, hget]

/-! ## Constraints are satisfied -/

/-- The `generate` law used: constrained addresses carry the constrained value in the
    resulting trace (content of C03/C14 for the combinators). -/
def GenerateRespects (p : GF A T) : Prop :=
  ∀ k c args a x, c.get a = some x → (p.choices (p.generate k c args).1).get a = some x

/-- Every particle returned by `run_smc` — `Importance`, `ImportanceK`, with or without a
    proposal, and any `ChangeTarget` stack on top — satisfies the final target's constraints. -/
theorem C26_constraints_satisfied (v : Variant) (alg : Alg A T) (k : Key)
    (hlaw : GenerateRespects alg.finalTarget.p) :
    ∀ pw ∈ runSmc v alg k, ∀ a x, alg.finalTarget.constraint.get a = some x →
      (alg.finalTarget.p.choices pw.1).get a = some x := by
  intro pw hpw a x hc
  cases alg with
  | importance t q =>
    cases q <;> simp [runSmc, Target.importance] at hpw <;> subst hpw <;>
      exact hlaw _ _ _ _ _ (get_merge_left _ _ _ _ hc)
  | importanceK t q K =>
    cases q <;> simp [runSmc, Target.importance] at hpw <;> obtain ⟨i, _, rfl⟩ := hpw <;>
      exact hlaw _ _ _ _ _ (get_merge_left _ _ _ _ hc)
  | changeTarget prev t =>
    simp only [runSmc, reweightAll, List.mem_map] at hpw
    obtain ⟨⟨i, tr, w⟩, _, rfl⟩ := hpw
    simp only [reweight, Target.importance]
    exact hlaw _ _ _ _ _ (get_merge_left _ _ _ _ hc)

/-! ## `random_weighted` returns only unconstrained choices -/

/-- `SMCAlgorithm.random_weighted(key, target)` returns a choice map with NO value at any
    address the target constrains, and its density estimate is `score(particle) − lml` of the
    collection of `ChangeTarget(self, target).run_smc(child k 0)`. -/
theorem C26_random_weighted_unconstrained_only (v : Variant) (alg : Alg A T) (k : Key) (target : Target A T)
    (idx : Nat) (lw : LW) (c : Chm) (h : alg.randomWeighted v k target idx = some (lw, c)) :
    (∀ a x, target.constraint.get a = some x → c.get a = none) ∧
    ∃ particle w, (runSmc v (changeTarget alg target) (child k 0))[idx]? = some (particle, w) ∧
      c = target.filterToUnconstrained (target.p.choices particle) ∧
      lw = .lme (target.p.score particle) false ((runSmc v (changeTarget alg target) (child k 0)).map Prod.snd) := by
  unfold Alg.randomWeighted at h
  cases hp : (runSmc v (changeTarget alg target) (child k 0))[idx]? with
  | none => simp [hp] at h
  | some pw =>
    obtain ⟨particle, w⟩ := pw
    simp only [hp, Option.some.injEq, Prod.mk.injEq] at h
    obtain ⟨rfl, rfl⟩ := h
    refine ⟨?_, particle, w, rfl, rfl, rfl⟩
    intro a x hc
    simp only [Target.filterToUnconstrained, filter]
    apply lookup_filter_none _ (fun a => (selOf target.constraint).compl.mem a)
    have := mem_keys_of_get _ _ _ hc
    show (selOf target.constraint).compl.mem a = false
    simp only [Sel.mem, Sel.compl, selOf]
    rw [this]; rfl

/-- The log marginal likelihood estimate is `logsumexp(weights) − log(number of weights)`. -/
theorem C26_lml_is_logmeanexp (pc : Particles T) : lmlEstimate pc = .lme 0 true (pc.map Prod.snd) := rfl

/-! ## Key routing -/

/-- Key independence of one SMC step: the key handed to the proposal and the key handed to
    `target.importance` are prefix-free (so nothing the two callees derive can coincide),
    for `Importance` and for every particle of `ImportanceK`. -/
def C26_smc_keys_distinct (v : Variant) : Prop :=
  ∀ (k : Key) (i : Nat), prefixFree (impQKey k) (impTKey k) = true ∧ prefixFree (impKQKey k i) (impKTKey v k i) = true

theorem isPrefix_append_ne (k : Key) (a b : Nat) (r s : Key) (h : a ≠ b) :
    isPrefix (k ++ a :: r) (k ++ b :: s) = false := by
  induction k with
  | nil => simp [isPrefix, h]
  | cons x xs ih => simp [isPrefix, ih]

theorem isPrefix_refl (k : Key) : isPrefix k k = true := by
  induction k with
  | nil => rfl
  | cons x xs ih => simp [isPrefix, ih]

theorem child_child (k : Key) (a i : Nat) : child (child k a) i = k ++ a :: [i] := by simp [child]

theorem prefixFree_split (k : Key) (r : Key) : prefixFree (k ++ 1 :: r) (k ++ 0 :: r) = true := by
  simp [prefixFree, isPrefix_append_ne k 1 0 r r (by decide), isPrefix_append_ne k 0 1 r r (by decide)]

theorem C26_importance_keys_distinct (k : Key) : prefixFree (impQKey k) (impTKey k) = true :=
  prefixFree_split k []

/-- `Importance` (both variants) and the repaired `ImportanceK` route independent keys. -/
theorem C26_keys_distinct_repaired (v : Variant) (hv : v.keysFix = true) : C26_smc_keys_distinct v := by
  intro k i
  refine ⟨prefixFree_split k [], ?_⟩
  simp only [impKQKey, impKTKey, hv, if_true, child_child]
  exact prefixFree_split k [i]

/-- Pinned `ImportanceK.run_smc` hands the SAME key to the proposal and to
    `target.importance` for every particle. -/
theorem C26_keys_pinned_equal (v : Variant) (hv : v.keysFix = false) (k : Key) (i : Nat) :
    impKQKey k i = impKTKey v k i := by simp [impKQKey, impKTKey, hv]

theorem C26_keys_refuted : ¬ C26_smc_keys_distinct Variant.pinned := by
  intro h
  have := (h [] 0).2
  revert this
  decide

/-- Draw-level consequence on a witness whose sampled value is a hash of the key used:
    proposal proposes `x`, the target's latent `z` is not proposed; in every particle of the
    pinned `ImportanceK.run_smc` the "independent" draws coincide, `z = x`. -/
def hashKey (k : Key) : Int := k.foldl (fun (a : Int) (i : Nat) => 31 * a + Int.ofNat i + 1) 7

def kQ : GF (Target Unit Chm) Int :=
  { simulate := fun k _ => hashKey k, assess := fun _ _ => 0, generate := fun k _ _ => (hashKey k, 0)
    project := fun _ _ => 0, update := fun _ t _ => (t, 0, []), choices := fun t => [("x", t)], score := fun _ => 0 }

def kP : GF Unit Chm :=
  { simulate := fun k _ => [("z", hashKey k), ("x", hashKey k)], assess := fun _ _ => 0
    generate := fun k c _ => ([("z", (c.get "z").getD (hashKey k)), ("x", (c.get "x").getD (hashKey k))], 0)
    project := fun _ _ => 0, update := fun _ t _ => (t, 0, []), choices := fun t => t, score := fun _ => 0 }

theorem C26_keys_refuted_draws (K : Nat) (k : Key) :
    ∀ pw ∈ runSmc Variant.pinned (importanceK ⟨kP, (), []⟩ (some (exactSD kQ)) K) k,
      (kP.choices pw.1).get "z" = (kP.choices pw.1).get "x" := by
  intro pw h
  simp only [runSmc, List.mem_map] at h
  obtain ⟨i, _, rfl⟩ := h
  simp [Target.importance, exactSD, kQ, kP, merge, Chm.get, impKQKey, impKTKey, Variant.pinned, List.lookup]

example : (runSmc Variant.repaired (importanceK ⟨kP, (), []⟩ (some (exactSD kQ)) 2) []).map (fun pw => pw.1)
    = [[("z", hashKey [0, 0]), ("x", hashKey [1, 0])], [("z", hashKey [0, 1]), ("x", hashKey [1, 1])]] := by decide +kernel

end GenjaxVerif.Infer

namespace GenjaxVerif.FinProbInfer

/-! ## Unbiased evidence (probability domain, finite trees over ℚ) -/

/-- A proposal is *exact* when each outcome's reported weight is its (non-zero) probability. -/
def ExactProposal (q : FinDist (Asg × Rat)) : Prop := ∀ x ∈ q, x.1.2 = x.2 ∧ x.2 ≠ 0

/-- The proposal's support *covers* the target: its outcomes partition the target's mass. -/
def Covers (t : Tree) (obs : Asg) (q : FinDist (Asg × Rat)) : Prop :=
  (q.map (fun x => Z t (obs ++ x.1.1))).sum = Z t obs

/-- One particle: `E[exp w] = Σ_x Z(obs ∪ x)` for an exact proposal. -/
theorem C26_single_particle_expectation (t : Tree) (obs : Asg) (q : FinDist (Asg × Rat)) (hq : ExactProposal q) :
    expect (isD t obs q) (fun w => w) = (q.map (fun x => Z t (obs ++ x.1.1))).sum := by
  rw [expect_isD]
  congr 1
  apply List.map_congr_left
  intro x hx
  obtain ⟨h1, h2⟩ := hq x hx
  rw [h1, Rat.div_def]
  have : x.2 * (Z t (obs ++ x.1.1) * x.2⁻¹) = Z t (obs ++ x.1.1) * (x.2 * x.2⁻¹) := by grind
  rw [this, Rat.mul_inv_cancel _ h2]; grind

/-- `exp(lml)` is an unbiased estimate of the normalising constant, for EVERY particle
    count K ≥ 1, every finite tree target, every exact proposal covering the support:
    `E[(1/K) Σᵢ exp wᵢ] = Z`. -/
theorem C26_lml_unbiased (t : Tree) (obs : Asg) (q : FinDist (Asg × Rat)) (K : Nat) (hK : 0 < K)
    (hq : ExactProposal q) (hcov : Covers t obs q) (hmass : mass (isD t obs q) = 1) :
    expect (sumK (isD t obs q) K) (fun s => s / (K : Rat)) = Z t obs := by
  have hk : (K : Rat) ≠ 0 := by
    have : (0 : Rat) < (K : Rat) := by exact_mod_cast hK
    exact Rat.ne_of_gt this
  have : (fun s : Rat => s / (K : Rat)) = (fun s => (K : Rat)⁻¹ * s) := by
    funext s; rw [Rat.div_def]; grind
  rw [this, expect_mul_left, expect_sumK _ hmass, C26_single_particle_expectation t obs q hq, hcov]
  rw [← Rat.mul_assoc, Rat.inv_mul_cancel _ hk]; grind

/-- Without a proposal (`q = None`): `generate` alone is unbiased, any K. -/
theorem C26_lml_unbiased_no_proposal (t : Tree) (obs : Asg) (K : Nat) (hK : 0 < K)
    (hmass : mass (genD t obs) = 1) :
    expect (sumK (dmap (fun r => r.2) (genD t obs)) K) (fun s => s / (K : Rat)) = Z t obs := by
  have hk : (K : Rat) ≠ 0 := by
    have : (0 : Rat) < (K : Rat) := by exact_mod_cast hK
    exact Rat.ne_of_gt this
  have hm : mass (dmap (fun r : Asg × Rat => r.2) (genD t obs)) = 1 := by
    rw [mass_eq_expect, expect_dmap, ← mass_eq_expect]; exact hmass
  have : (fun s : Rat => s / (K : Rat)) = (fun s => (K : Rat)⁻¹ * s) := by
    funext s; rw [Rat.div_def]; grind
  rw [this, expect_mul_left, expect_sumK _ hm, expect_dmap, expect_genD]
  rw [← Rat.mul_assoc, Rat.inv_mul_cancel _ hk]; grind

/-! Non-vacuity: the flip–flip model of tests/inference/test_smc.py (`x ~ flip(1/2)`,
    `y ~ flip(x ? 9/10 : 3/10)`, observe `y = 1`), proposal `x ~ flip(1/4)`. -/
def ffTree : Tree :=
  .choose 0 [(1, 1/2), (0, 1/2)] (fun x => .choose 1 (if x = 1 then [(1, 9/10), (0, 1/10)] else [(1, 3/10), (0, 7/10)]) (fun _ => .ret))
def ffQ : FinDist (Asg × Rat) := [(([(0, 1)], 1/4), 1/4), (([(0, 0)], 3/4), 3/4)]

example : Z ffTree [(1, 1)] = 3/5 := by decide +kernel
example : ExactProposal ffQ := by intro x hx; simp [ffQ] at hx; rcases hx with rfl | rfl <;> decide +kernel
example : Covers ffTree [(1, 1)] ffQ := by unfold Covers; decide +kernel
example : mass (isD ffTree [(1, 1)] ffQ) = 1 := by decide +kernel
example : expect (sumK (isD ffTree [(1, 1)] ffQ) 2) (fun s => s / 2) = 3/5 := by decide +kernel

end GenjaxVerif.FinProbInfer
