import GenjaxVerif.Lemmas.GFIUpdate
import GenjaxVerif.Props.GFITest
/-!
# C15 — dimap, map and contramap only transform arguments and return values
-/
namespace GenjaxVerif.GFI
open GenjaxVerif

/-- For every mode (simulate, assess, generate, update, regenerate): `dimap(pre, post)(p)` runs `p`
    on `pre(args)` with the same key / constraint / selection (and, for edits, the inner previous
    trace); its choices, score, weight and backward constraint are the inner ones and its return
    value is `post(args, pre(args), inner return)` — recomputed from the NEW arguments on every
    edit. -/
theorem C15_dimap_transparent (ds : DistSem) (m : Mode) (pre : Pre) (p : Prog) (post : Expr) (i : In) (r : Res)
    (h : run ds m (.dimap pre p post) i = .ok r) :
    ∃ as ia o r' rv, argList i.args = .ok as ∧ pre.apply as = .ok ia ∧ dimapOld m i.old = .ok o ∧
      run ds m p { i with old := o, args := .tup ia } = .ok r' ∧
      Expr.eval [i.args, .tup ia, r'.tr.ret] post = .ok rv ∧
      r.tr = .dimap i.args rv r'.tr ∧ r.tr.ret = rv ∧ r.w = r'.w ∧ r.bwd = r'.bwd ∧
      r.tr.score = r'.tr.score ∧ r.tr.choices = r'.tr.choices := by
  simp only [run, dimapRun, bind_ok, pure_ok] at h
  obtain ⟨as, has, ia, hia, o, ho, r', h4, rv, hrv, rfl⟩ := h
  exact ⟨as, ia, o, r', rv, has, hia, ho, h4, hrv, rfl, rfl, rfl, rfl, rfl, rfl⟩

/-- `map(f)` leaves the arguments alone; `contramap(f)` leaves the return value alone. -/
theorem C15_map_contramap_def (p : Prog) (f : Expr) (es : List Expr) :
    Derived.map p f = .dimap .id p f ∧ Derived.contramap es p = .dimap (.exprs es) p (.var 2) := ⟨rfl, rfl⟩

theorem C15_identity_maps (as : List Val) (a xf r : Val) :
    Pre.apply .id as = .ok as ∧ Expr.eval [a, xf, r] Derived.retId = .ok r := by
  simp [Pre.apply, Derived.retId, Expr.eval]

/-- The edited inner trace is the dimap trace's inner trace. -/
theorem C15_edit_uses_inner_trace (a rv : Val) (inner : Trace) :
    dimapOld .upd (some (.dimap a rv inner)) = .ok (some inner) ∧
    dimapOld .regen (some (.dimap a rv inner)) = .ok (some inner) := ⟨rfl, rfl⟩

end GenjaxVerif.GFI
