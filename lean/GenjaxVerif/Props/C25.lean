import GenjaxVerif.Lemmas.Infer
import GenjaxVerif.Lemmas.FinProbInfer
/-!
# C25 — Marginal is an unbiased density sampler for the selected choices

Log domain, abstract interface: what weight `Marginal.random_weighted` returns
(`C25_marginal_weight_spec`), the all-selected case (`C25_all_selected_*`), what the
algorithm branch hands to the algorithm (`C25_with_algorithm_spec`).
Probability domain, finite trees over ℚ: the stochastic-probability-interface identity
`E[exp(−w) · 1{X = x}] = 1` for every selected outcome `x` of positive probability
(`C25_full`), REFUTED for the pinned code, which projects on the complement of the selection
(`C25_refuted`).
-/
namespace GenjaxVerif.Infer

variable {B U : Type}

/-- Without an algorithm `random_weighted(key, *args)` simulates with `child k 1`, returns the
    selected part of the choices, and the weight `project(tr, S)` where `S` is the marginal's
    selection in the repaired code and its COMPLEMENT in the pinned code. -/
theorem C25_marginal_weight_spec (v : Variant) (g : GF B U) (sel : Sel) (k : Key) (args : B) :
    (Marginal.randomWeighted v ⟨g, sel, Option.none⟩ k args) =
      .ok (some (.exact (g.project (g.simulate (child k 1) args) (if v.margFix then sel else sel.compl))),
           filter sel (g.choices (g.simulate (child k 1) args))) := by
  cases h : v.margFix <;> simp [Marginal.randomWeighted, h] <;> rfl

/-- The all-selected case at full strength: the weight is the trace's score and equals
    `estimate_logpdf` of the returned sample.  Interface laws used: projecting on everything
    gives the score; `generate` under a full constraint returns the score as weight. -/
def C25_all_selected_full (v : Variant) : Prop :=
  ∀ (B U : Type) (g : GF B U) (k k' : Key) (args : B),
    (∀ tr, g.project tr Sel.all = g.score tr) →
    (∀ tr, g.project tr Sel.none = 0) →
    (∀ tr kk, (g.generate kk (g.choices tr) args).2 = g.score tr) →
    let tr := g.simulate (child k 1) args
    Marginal.randomWeighted v ⟨g, Sel.all, Option.none⟩ k args
        = .ok (some (.exact (g.score tr)), filter Sel.all (g.choices tr))
    ∧ (filter Sel.all (g.choices tr) = g.choices tr →
       Marginal.estimateLogpdf v ⟨g, Sel.all, Option.none⟩ k' (filter Sel.all (g.choices tr)) args true
         = .ok (.exact (g.score tr)))

theorem filter_all (c : Chm) : filter Sel.all c = c := by
  simp [filter, Sel.mem, Sel.all]

theorem C25_all_selected_repaired (v : Variant) (hv : v.margFix = true) : C25_all_selected_full v := by
  intro B U g k k' args hall _ hgen
  refine ⟨?_, ?_⟩
  · rw [C25_marginal_weight_spec]; simp [hv, hall]
  · intro _
    simp only [Marginal.estimateLogpdf, filter_all, hgen]
    cases v.annotFix <;> rfl

/-- Witness: one address with log-density 5. -/
def mG : GF Unit Int :=
  { simulate := fun _ _ => 1, assess := fun _ _ => 5, generate := fun _ _ _ => (1, 5)
    project := fun _ s => if s.mem "x" then 5 else 0, update := fun _ t _ => (t, 0, [])
    choices := fun t => [("x", t)], score := fun _ => 5 }

/-- Pinned code, everything selected: the weight is 0, not the score 5. -/
example : Marginal.randomWeighted Variant.pinned ⟨mG, Sel.all, Option.none⟩ [] () = .ok (some (.exact 0), [("x", 1)]) := by
  rw [C25_marginal_weight_spec]; simp [mG, Variant.pinned, Sel.mem, Sel.all, Sel.compl, filter]

theorem C25_all_selected_refuted : ¬ C25_all_selected_full Variant.pinned := by
  intro h
  have := (h Unit Int mG [] [] () (by intro tr; simp [mG, Sel.mem, Sel.all]) (by intro tr; simp [mG, Sel.mem, Sel.none])
    (by intro tr kk; rfl)).1
  rw [C25_marginal_weight_spec] at this
  simp [mG, Variant.pinned, Sel.mem, Sel.all, Sel.compl] at this

/-- Partial theorem for the pinned code: it is right exactly when the complement's projection
    equals the selection's projection (e.g. programs whose selected and unselected sites have
    equal total log-density; never the all-selected case unless the score is 0). -/
theorem C25_marginal_weight_partial (v : Variant) (g : GF B U) (sel : Sel) (k : Key) (args : B)
    (h : g.project (g.simulate (child k 1) args) sel.compl = g.project (g.simulate (child k 1) args) sel) :
    (Marginal.randomWeighted v ⟨g, sel, Option.none⟩ k args) =
      .ok (some (.exact (g.project (g.simulate (child k 1) args) sel)),
           filter sel (g.choices (g.simulate (child k 1) args))) := by
  rw [C25_marginal_weight_spec]; cases v.margFix <;> simp [h]

example : mG.project (mG.simulate (child [] 1) ()) (⟨false, ["y"]⟩ : Sel).compl
    = mG.project (mG.simulate (child [] 1) ()) ⟨false, ["y"]⟩ → False := by decide +kernel

/-- With an algorithm: the target is (gen_fn, args, selected choices); the algorithm's
    `estimate_reciprocal_normalizing_constant` receives the key `child (child k 0) 0`, the
    UNSELECTED choices as the retained latents and `project(tr, ~selection)` as their weight. -/
theorem C25_with_algorithm_spec (v : Variant) (g : GF B U) (sel : Sel) (alg : Alg B U) (k : Key) (args : B) :
    let tr := g.simulate (child k 1) args
    Marginal.randomWeighted v ⟨g, sel, some alg⟩ k args =
      (alg.estimateReciprocalNormalizingConstant v (child (child k 0) 0) ⟨g, args, filter sel (g.choices tr)⟩
        (filter sel.compl (g.choices tr)) (g.project tr sel.compl)).map
        (fun z => (z, filter sel (g.choices tr))) := by
  simp only [Marginal.randomWeighted]
  cases alg.estimateReciprocalNormalizingConstant v (child (child k 0) 0)
      ⟨g, args, filter sel (g.choices (g.simulate (child k 1) args))⟩
      (filter sel.compl (g.choices (g.simulate (child k 1) args)))
      (g.project (g.simulate (child k 1) args) sel.compl) <;> rfl

/-- `Marginal.estimate_logpdf` without algorithm is the `generate` weight of the sample; with
    an algorithm it is the algorithm's normalising-constant estimate for the target
    (gen_fn, args, sample). -/
theorem C25_estimate_logpdf_spec (v : Variant) (g : GF B U) (sel : Sel) (k : Key) (x : Chm) (args : B)
    (hv : v.annotFix = true) (b : Bool) :
    Marginal.estimateLogpdf v ⟨g, sel, Option.none⟩ k x args b = .ok (.exact (g.generate k x args).2) ∧
    ∀ alg, Marginal.estimateLogpdf v ⟨g, sel, some alg⟩ k x args b
      = .ok (alg.estimateNormalizingConstant v k ⟨g, args, x⟩) := by
  simp only [Marginal.estimateLogpdf, hv]
  exact ⟨rfl, fun _ => rfl⟩

/-- Pinned annotation `*args: tuple[Any, ...]`: any non-tuple positional argument is rejected. -/
theorem C25_estimate_logpdf_annotation (v : Variant) (hv : v.annotFix = false) (m : Marginal B U) (k : Key)
    (x : Chm) (args : B) : Marginal.estimateLogpdf v m k x args false = .error .typeError := by
  simp [Marginal.estimateLogpdf, hv]

end GenjaxVerif.Infer

namespace GenjaxVerif.FinProbInfer

/-- The stochastic-probability-interface requirement for `Marginal.random_weighted` on finite
    trees, in unnormalised form: for every selected outcome `x` of positive marginal
    probability, `E[exp(−w) · 1{X = x}] = P(X = x) · (1 / p(x)) = 1`.
    `proj sel` is the selection the code hands to `project`. -/
def C25_full (proj : (Nat → Bool) → (Nat → Bool)) : Prop :=
  ∀ (t : Tree) (sel : Nat → Bool) (x : Asg),
    expect (margD t sel (proj sel)) (fun r => if r.1 = x then 1 else 0) ≠ 0 →
    expect (margD t sel (proj sel)) (fun r => if r.1 = x then 1 / r.2 else 0) = 1

/-- flip–flip: `x ~ flip(1/2)` at address 0, `y ~ flip(x ? 9/10 : 3/10)` at address 1. -/
def ff : Tree :=
  .choose 0 [(1, 1/2), (0, 1/2)] (fun x => .choose 1 (if x = 1 then [(1, 9/10), (0, 1/10)] else [(1, 3/10), (0, 7/10)]) (fun _ => .ret))

/-- The pinned code (projection on the complement) violates the SPI identity: selecting
    everything gives weight 1 (log-weight 0), so `E[exp(−w) 1{X = (1,1)}] = 9/20 ≠ 1`. -/
theorem C25_refuted : ¬ C25_full (fun sel a => !sel a) := by
  intro h
  have := h ff (fun _ => true) [(0, 1), (1, 1)] (by decide +kernel)
  revert this
  decide +kernel

/-- Instances of the identity for the repaired code (tests on concrete trees, not the general
    theorem): marginal of `y` (x marginalised), of `x`, and of everything. -/
example : expect (margD ff (fun a => a == 1) (fun a => a == 1)) (fun r => if r.1 = [(1, 1)] then 1 / r.2 else 0) = 1 := by
  decide +kernel
example : expect (margD ff (fun a => a == 0) (fun a => a == 0)) (fun r => if r.1 = [(0, 0)] then 1 / r.2 else 0) = 1 := by
  decide +kernel
example : expect (margD ff (fun _ => true) (fun _ => true)) (fun r => if r.1 = [(0, 1), (1, 0)] then 1 / r.2 else 0) = 1 := by
  decide +kernel
/-- and the marginal probability itself: `P(y = 1) = 3/5`. -/
example : expect (margD ff (fun a => a == 1) (fun a => a == 1)) (fun r => if r.1 = [(1, 1)] then 1 else 0) = 3/5 := by
  decide +kernel

end GenjaxVerif.FinProbInfer
