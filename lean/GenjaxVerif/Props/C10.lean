import GenjaxVerif.Lemmas.GFIProject
import GenjaxVerif.Props.GFITest
/-!
# C10 — project splits the score along a selection

`project p t s` models `<Combinator>.project(key, trace, selection)` on a trace `t` of the
program `p`.  Selections are the terms of model A (C18), for which membership of the
complement is the negation of membership (`Sel.C18_mem_compl`).
-/
namespace GenjaxVerif.GFI
open GenjaxVerif

/-- `project(S) + project(~S) = score`, for every program whose combinators support project,
    every trace of the program's shape, every selection (through the simplifying `~`). -/
theorem C10_project_complement (p : Prog) (t : Trace) (s : Sel) (a b : Int)
    (hs : Shape p t) (hd : DistinctAddrs p)
    (ha : project p t s = .ok a) (hb : project p t (Sel.mkCompl s) = .ok b) : a + b = t.score :=
  project_split p t s (Sel.mkCompl s) a b hs hd (fun q => Sel.C18_mem_compl s q) ha hb

/-- More generally: two selections that are complementary *as sets of addresses* split the score. -/
theorem C10_project_split (p : Prog) (t : Trace) (s1 s2 : Sel) (a b : Int)
    (hs : Shape p t) (hd : DistinctAddrs p) (hc : ∀ q, Sel.mem s2 q = !Sel.mem s1 q)
    (ha : project p t s1 = .ok a) (hb : project p t s2 = .ok b) : a + b = t.score :=
  project_split p t s1 s2 a b hs hd hc ha hb

/-- `project(none) = 0`. -/
theorem C10_project_none (p : Prog) (t : Trace) (a : Int) (ha : project p t .none = .ok a) : a = 0 :=
  project_none p t .none a (fun q => Sel.C18_mem_none q) ha

/-- `project(all) = score`. -/
theorem C10_project_all (p : Prog) (t : Trace) (a b : Int) (hs : Shape p t) (hd : DistinctAddrs p)
    (ha : project p t .all = .ok a) (hb : project p t .none = .ok b) : a = t.score := by
  have h1 := project_split p t .all .none a b hs hd
    (fun q => by simp [Sel.C18_mem_all, Sel.C18_mem_none]) ha hb
  have h2 := C10_project_none p t b hb
  omega

/-- At a primitive choice, project returns the choice's log-density iff the selection selects it. -/
theorem C10_project_leaf (d : Nat) (a : Val) (v lp : Int) (s : Sel) :
    project (.dist d) (.dist d a v lp) s = .ok (if Sel.mem s [] then lp else 0) := rfl

/-- The mask combinator does not support project (`raise NotImplementedError`). -/
theorem C10_mask_not_supported (p : Prog) (t : Trace) (s : Sel) : project (.mask p) t s = .error .notSupported := by
  simp [project]

/-- tests: hypotheses are satisfiable on a concrete trace, and the values are as expected -/
example : Shape Test.prog1 Test.trace1 ∧ DistinctAddrs Test.prog1 := by
  simp [Test.prog1, Test.trace1, Shape, ShapeBody, DistinctAddrs, DistinctBody]
example : project Test.prog1 Test.trace1 (Sel.atAddr [some "y"]) = .ok 26 := by rfl
example : project Test.prog1 Test.trace1 (Sel.mkCompl (Sel.atAddr [some "y"])) = .ok 1 := by rfl

end GenjaxVerif.GFI
