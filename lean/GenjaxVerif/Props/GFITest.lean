import GenjaxVerif.Model.GFI
import GenjaxVerif.Model.Derived
/-! Concrete programs and a concrete distribution table used by the non-vacuity examples and
    refutation witnesses of the model-E property files (these are tests, labelled as such). -/
namespace GenjaxVerif.GFI.Test
open GenjaxVerif GenjaxVerif.GFI

/-- sample = d + 1, log-density = 10·d + v + (number of arguments). -/
def ds : DistSem :=
  ⟨fun d _ _ => (d : Int) + 1, fun d v a => 10 * (d : Int) + v + (match a with | .tup as => as.length | _ => 0)⟩

/-- x ~ d0();  y ~ vmap(d1)([x, 5]);  return x -/
def prog1 : Prog :=
  .static (.bind ["x"] (.dist 0) [] (.bind ["y"] (.vmap (.dist 1) [some 0]) [.stack [.var 1, .lit 5]] (.ret (.var 1))))

/-- the trace `simulate` returns for `prog1` on argument 3 under `ds` -/
def trace1 : Trace :=
  .static (.tup [.int 3]) (.int 1)
    [(["x"], .dist 0 (.tup []) 1 1),
     (["y"], .vec (.tup [.arr [.int 1, .int 5]]) (.arr [.int 2, .int 2])
        [.dist 1 (.tup [.int 1]) 2 13, .dist 1 (.tup [.int 5]) 2 13])]

def in1 : In := { c := [], sel := .none, old := none, key := [0], args := .tup [.int 3] }

/-- a function whose only traced call makes no random choice -/
def progEmpty : Prog := .static (.bind ["y"] (.static (.ret (.lit 0))) [] (.ret (.lit 0)))

def in0 : In := { in1 with args := .tup [] }

/-- mask(d1)(flag, a) -/
def progMask : Prog := .mask (.dist 1)

end GenjaxVerif.GFI.Test
