import GenjaxVerif.Lemmas.Mask
/-!
# C20 — Staging helpers select, branch and combine flags correctly

Statements only (model functions live in `Model/Mask.lean`).  Quantification: ALL truth values
and staging modes of every flag, vectors of ANY length, ALL integer indices (negative and
out of range included), ANY non-empty choice / branch list, branch outputs of ANY type
(heterogeneous shapes are values of one tree type `β`).
-/
namespace GenjaxVerif.MaskModel

/-! ## FlagOp and / or / xor / not: Boolean logic in every mode, and the staging rule -/

/-- Truth tables, whatever the modes of the operands. -/
theorem C20_flagop_tables (f g : Flag) :
    (Flag.and f g).val = (f.val && g.val) ∧ (Flag.or f g).val = (f.val || g.val) ∧
    (Flag.xor f g).val = (f.val ^^ g.val) ∧ (Flag.not f).val = !f.val := by
  simp

/-- Staging rule: the result is a Python bool exactly when all operands are. -/
theorem C20_flagop_concreteness (f g : Flag) :
    (Flag.and f g).isConc = (f.isConc && g.isConc) ∧ (Flag.or f g).isConc = (f.isConc && g.isConc) ∧
    (Flag.xor f g).isConc = (f.isConc && g.isConc) ∧ (Flag.not f).isConc = f.isConc := by
  simp

/-- Mode invariance of the truth value. -/
theorem C20_flagop_mode_invariance (f f' g g' : Flag) (hf : f.val = f'.val) (hg : g.val = g'.val) :
    (Flag.and f g).val = (Flag.and f' g').val ∧ (Flag.or f g).val = (Flag.or f' g').val ∧
    (Flag.xor f g).val = (Flag.xor f' g').val ∧ (Flag.not f).val = (Flag.not f').val := by
  simp [hf, hg]

/-- Boolean algebra as *equalities of flags* (truth value and staging mode together):
    involution, De Morgan, commutativity. -/
theorem C20_flagop_algebra (f g : Flag) :
    Flag.not (Flag.not f) = f ∧
    Flag.not (Flag.and f g) = Flag.or (Flag.not f) (Flag.not g) ∧
    Flag.not (Flag.or f g) = Flag.and (Flag.not f) (Flag.not g) ∧
    Flag.and f g = Flag.and g f ∧ Flag.or f g = Flag.or g f ∧ Flag.xor f g = Flag.xor g f := by
  cases f with
  | conc a => cases g with
    | conc b => cases a <;> cases b <;> decide
    | dyn b => cases a <;> cases b <;> decide
  | dyn a => cases g with
    | conc b => cases a <;> cases b <;> decide
    | dyn b => cases a <;> cases b <;> decide

example : (Flag.conc true).val = (Flag.dyn true).val := rfl

/-- Array flags: elementwise for equal lengths (any length), scalar operands broadcast, unequal
    lengths are an error. -/
theorem C20_flagop_vec (fs gs : List Bool) (s : Flag) :
    (fs.length = gs.length →
      FlagArg.and (.vec fs) (.vec gs) = .ok (.vec (List.zipWith (· && ·) fs gs)) ∧
      FlagArg.or (.vec fs) (.vec gs) = .ok (.vec (List.zipWith (· || ·) fs gs)) ∧
      FlagArg.xor (.vec fs) (.vec gs) = .ok (.vec (List.zipWith (· ^^ ·) fs gs))) ∧
    (fs.length ≠ gs.length →
      FlagArg.and (.vec fs) (.vec gs) = .error .shape ∧ FlagArg.or (.vec fs) (.vec gs) = .error .shape ∧
      FlagArg.xor (.vec fs) (.vec gs) = .error .shape) ∧
    FlagArg.and (.sc s) (.vec gs) = .ok (.vec (gs.map (s.val && ·))) ∧
    FlagArg.or (.vec fs) (.sc s) = .ok (.vec (fs.map (· || s.val))) ∧
    FlagArg.not (.vec fs) = .vec (fs.map (!·)) := by
  refine ⟨fun h => ?_, fun h => ?_, rfl, rfl, rfl⟩ <;>
    simp [FlagArg.and, FlagArg.or, FlagArg.xor, FlagArg.lift2, h]

example : ([true, false] : List Bool).length = [false, false].length := rfl

/-! ## FlagOp.where / FlagOp.cond -/

/-- `where`: concrete flags return the chosen alternative untouched (no typing demand); traced
    flags give the same choice provided both alternatives have one (shape, dtype). -/
theorem C20_where {α} [Shaped α] (f : Flag) (t e : α) :
    (f.isConc = true → whereF f t e = .ok (if f.val then t else e)) ∧
    (Shaped.sameType t e = true → whereF f t e = .ok (if f.val then t else e)) ∧
    (f.isConc = false → Shaped.sameType t e = false → whereF f t e = .error .typeErr) := by
  cases f with
  | conc b => cases b <;> simp [whereF, Flag.isConc, Flag.val]
  | dyn b =>
    refine ⟨fun h => by simp [Flag.isConc] at h, fun h => by cases b <;> simp [whereF, h, Flag.val],
      fun _ h => by simp [whereF, h]⟩

example : Shaped.sameType (Tree.node [.leaf 1, .leaf 2]) (Tree.node [.leaf 5, .leaf 6]) = true := by
  decide

/-- `where` with an array flag: elementwise over equal lengths (any length). -/
theorem C20_where_vec {α} (fs : List Bool) (t e : List α)
    (h : fs.length = t.length ∧ t.length = e.length) :
    whereV fs t e =
      .ok (List.zipWith (fun (b : Bool) (p : α × α) => if b then p.1 else p.2) fs (List.zip t e)) := by
  simp [whereV, h]

example : ([true, false] : List Bool).length = [1, 2].length ∧ [1, 2].length = [3, 4].length :=
  ⟨rfl, rfl⟩

/-- `cond`: runs `tf` when the flag is true, else `ff`, in every mode (for a traced flag under
    the typing demand of `lax.cond`); a vector flag is an error. -/
theorem C20_cond {α β} [Shaped β] (f : Flag) (tf ff : α → β) (a : α) (fs : List Bool) :
    (f.isConc = true → condF (.sc f) tf ff a = .ok (if f.val then tf a else ff a)) ∧
    (Shaped.sameType (tf a) (ff a) = true →
      condF (.sc f) tf ff a = .ok (if f.val then tf a else ff a)) ∧
    (f.isConc = false → Shaped.sameType (tf a) (ff a) = false →
      condF (.sc f) tf ff a = .error .typeErr) ∧
    condF (.vec fs) tf ff a = .error .notScalar := by
  cases f with
  | conc b => cases b <;> simp [condF, Flag.isConc, Flag.val]
  | dyn b =>
    refine ⟨fun h => by simp [Flag.isConc] at h, fun h => by cases b <;> simp [condF, h, Flag.val],
      fun _ h => by simp [condF, h], rfl⟩

/-! ## tree_choose -/

/-- `tree_choose` returns the element at `idx mod n` (mathematical, non-negative remainder),
    for every integer index and every non-empty list, in both staging modes. -/
theorem C20_treeChoose_mod {α} (idx : Idx) (vs : List α) (h : vs ≠ []) :
    ∃ (k : Nat) (hk : k < vs.length),
      (k : Int) = idx.val % (vs.length : Int) ∧ treeChoose idx vs = .ok vs[k] := by
  have hpos := List.length_pos_iff.mpr h
  refine ⟨(idx.val % (vs.length : Int)).toNat, emod_toNat_lt _ hpos, ?_, treeChoose_eq idx vs h⟩
  have h0 : 0 ≤ idx.val % (vs.length : Int) := Int.emod_nonneg _ (by omega)
  omega

example : treeChoose (.conc (-4)) [10, 20, 30] = .ok 30 ∧ treeChoose (.dyn 7) [10, 20, 30] = .ok 20 := by
  decide

/-- In range it is plain indexing; the mode of the index never matters. -/
theorem C20_treeChoose_inrange {α} (idx : Idx) (vs : List α) (k : Nat) (hk : k < vs.length)
    (h : idx.val = k) : treeChoose idx vs = .ok vs[k] := by
  have hne : vs ≠ [] := List.ne_nil_of_length_pos (by omega)
  rw [treeChoose_eq idx vs hne]
  congr 1
  have : (idx.val % (vs.length : Int)).toNat = k := by
    rw [h, Int.emod_eq_of_lt (by omega) (by omega)]; simp
  simp [this]

example : (Idx.dyn 2).val = ((2 : Nat) : Int) := rfl

theorem C20_treeChoose_mode_invariance {α} (i : Int) (vs : List α) :
    treeChoose (.conc i) vs = treeChoose (.dyn i) vs := by
  cases vs with
  | nil => rfl
  | cons v rest => simp [treeChoose, pyMod_eq_emod]

theorem C20_treeChoose_empty {α} (idx : Idx) : treeChoose idx ([] : List α) = .error .empty := rfl

/-- dtype promotion: the result carries the value of the selected element and the promotion of
    all choices' dtypes (an upper bound of every choice's dtype that is one of them, `bool` at
    least). -/
theorem C20_chooseLeaf (idx : Idx) (vs : List Leaf) (h : vs ≠ []) :
    ∃ (k : Nat) (hk : k < vs.length), (k : Int) = idx.val % (vs.length : Int) ∧
      chooseLeaf idx vs = .ok ⟨joinAll vs, vs[k].x⟩ ∧
      (∀ l ∈ vs, l.dt.rank ≤ (joinAll vs).rank) ∧
      (joinAll vs = .b ∨ ∃ l ∈ vs, joinAll vs = l.dt) := by
  obtain ⟨k, hk, hmod, hc⟩ := C20_treeChoose_mod idx vs h
  refine ⟨k, hk, hmod, ?_, (foldl_join_ge vs .b).2, foldl_join_mem vs .b⟩
  simp [chooseLeaf, hc, Leaf.cast, Except.map]

example : chooseLeaf (.conc 0) [⟨.b, 1⟩, ⟨.i, 20⟩, ⟨.f, 3⟩] = .ok ⟨.f, 1⟩ := by decide

/-- Array index: elementwise (`chooseElem` is by definition the per-position `chooseLeaf`);
    stated for the length: one output per index entry. -/
theorem C20_chooseElem_length (idx : List Int) (cols : List (List Leaf)) (out : List Leaf)
    (h : chooseElem idx cols = .ok out) : out.length = idx.length := by
  unfold chooseElem at h
  split at h
  · rename_i hl
    have : ∀ (ps : List (Int × List Leaf)) (o : List Leaf),
        ps.mapM (fun p => chooseLeaf (.dyn p.1) p.2) = .ok o → o.length = ps.length := by
      intro ps
      induction ps with
      | nil => intro o ho; simp [pure, Except.pure] at ho; subst ho; rfl
      | cons p ps ih =>
        intro o ho
        rw [List.mapM_cons] at ho
        cases hp : chooseLeaf (.dyn p.1) p.2 with
        | error e => simp [hp, bind, Except.bind] at ho
        | ok v =>
          cases hr : ps.mapM (fun p => chooseLeaf (.dyn p.1) p.2) with
          | error e => simp [hp, hr, bind, Except.bind] at ho
          | ok r =>
            simp [hp, hr, bind, Except.bind, pure, Except.pure] at ho
            subst ho
            simp [ih r hr]
    rw [this _ _ h]; simp [hl]
  · cases h

example : chooseElem [0, -1] [[⟨.i, 1⟩, ⟨.i, 2⟩], [⟨.b, 1⟩, ⟨.f, 7⟩]] = .ok [⟨.i, 1⟩, ⟨.f, 7⟩] := by decide

/-! ## multi_switch -/

/-- The clamp of `lax.switch`. -/
theorem C20_clamp (i : Int) (n : Nat) :
    (i < 0 → clamp i n = 0) ∧ ((n : Int) ≤ i → clamp i n = n - 1) ∧
    (0 ≤ i → i < (n : Int) → (clamp i n : Int) = i) := clamp_eq i n

/-- `multi_switch` returns one slot per branch; the slot at the clamped index holds that
    branch's real output, every other slot the zero placeholder of its own branch's output
    shape — for every integer index and heterogeneous outputs. -/
theorem C20_multiSwitch_clamp {α β} (zero : β → β) (idx : Int) (fs : List (α → β)) (args : List α)
    (h : fs.length = args.length) (hne : fs ≠ []) :
    ∃ out, multiSwitch zero idx fs args = .ok out ∧ out.length = fs.length ∧
      clamp idx fs.length < fs.length ∧
      ∀ (j : Nat) (hj : j < fs.length) (hj' : j < args.length),
        out[j]? = some (if j = clamp idx fs.length then fs[j] args[j] else zero (fs[j] args[j])) := by
  have hpos : 0 < fs.length := List.length_pos_iff.mpr hne
  have hzl : (List.zip fs args).length = fs.length := by simp [List.length_zip, h]
  have hnz : (List.zip fs args).isEmpty = false := by
    cases hz : List.zip fs args with
    | nil => rw [hz] at hzl; simp at hzl; omega
    | cons _ _ => rfl
  refine ⟨_, by simp only [multiSwitch, hnz]; rfl, ?_, clamp_lt idx hpos, ?_⟩
  · simp [List.length_zip, h]
  · intro j hj hj'
    simp only [hzl, List.getElem?_map, List.length_map]
    have e1 : (List.zip (List.range fs.length) (List.map (fun p => p.1 p.2) (List.zip fs args)))[j]?
        = some (j, fs[j] args[j]) := by
      simp [List.getElem?_zip_eq_some, hj, hj']
      exact ⟨_, _, ⟨rfl, rfl⟩, rfl⟩
    rw [e1]; rfl

example : ([fun (x : Int) => x + 1, fun x => x * 2] : List (Int → Int)).length = [5, 6].length := rfl

theorem C20_multiSwitch_empty {α β} (zero : β → β) (idx : Int) (args : List α) :
    multiSwitch zero idx ([] : List (α → β)) args = .error .empty := rfl

/-- Concrete instance (a test, not the theorem): index 7 over three heterogeneous branches. -/
example :
    (multiSwitch Tree.zeros 7 [fun t => Tree.map (· + 1) t, fun t => Tree.node [t, t], fun _ => Tree.leaf 9]
      [Tree.leaf 5, Tree.leaf 2, Tree.leaf 0]).toOption.map (·.map (Tree.beq · (Tree.leaf 0)))
      = some [true, false, false] := by decide

end GenjaxVerif.MaskModel
