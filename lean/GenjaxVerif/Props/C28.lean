import GenjaxVerif.Lemmas.Leapfrog
import Mathlib.Tactic.NormNum
/-!
# C28 — HMC proposals follow leapfrog dynamics and return the MH log ratio

Statements only; the model is `Model/Leapfrog.lean`.

`HMC.edit` AS WRITTEN does **not** follow leapfrog dynamics for `L ≥ 2`: its scan kernel
returns the stale `gradient` in the carry, so every first half-step after step 1 uses the
gradient of the INITIAL position.  Hence:

* `C28_full` (the as-written kernel equals leapfrog for every `L`, gradient, start) is kept
  as a `def`, `C28_refuted : ¬ C28_full` is proved by a concrete witness;
* what IS proved for the code as written: `C28_first_step_agrees`,
  `C28_asWritten_eq_leapfrog_partial` (`L ≤ 1`), `C28_asWritten_eq_leapfrog_partial_const`
  (constant gradient), and the exact description `C28_asWritten_characterisation`;
* for the one-token repair (`gradients` returned in the carry) the full statement holds:
  `C28_repaired_eq_leapfrog`;
* independent of the dynamics: `C28_alpha_def` (the weight the code computes is
  `H(start) − H(end)`), `C28_alpha_flip_invariant`, `C28_unselected_fixed`,
  `C28_trace_level_asWritten` / `C28_trace_level_repaired` (the kernel that threads the
  trace is the abstract kernel on `(q, grad, p)`), and for the textbook integrator
  `C28_leapfrog_reversible`.

Outside the model: volume preservation of the leapfrog map and the measure-theoretic step
from (reversible + volume preserving + weight `H(start) − H(end)`) to invariance of the
target under accept/reject; automatic differentiation (`g` is an oracle); floating point.
-/
namespace GenjaxVerif.Leapfrog

/-! ## Dynamics: structural theorems, valid for ANY scalar type with `+` and `*` -/
section Structural
variable {R : Type} [Add R] [Mul R]

/-- Repaired kernel = textbook leapfrog, for every number of steps, step size, gradient
    oracle and start (induction on `L`, invariant "carried gradient = g (current q)"). -/
theorem C28_repaired_eq_leapfrog (half eps : R) (g : List R → List R) (L : Nat) (q0 p0 : List R) :
    ((runRepaired half eps g L q0 p0).q, (runRepaired half eps g L q0 p0).p)
      = runSpec half eps g L q0 p0 :=
  (repaired_invariant half eps g L (initCarry g q0 p0) rfl).1

/-- The as-written kernel agrees with leapfrog on the first step (any `g`). -/
theorem C28_first_step_agrees (half eps : R) (g : List R → List R) (q0 p0 : List R) :
    ((runAsWritten half eps g 1 q0 p0).q, (runAsWritten half eps g 1 q0 p0).p)
      = runSpec half eps g 1 q0 p0 := rfl

/-- EXACT description of what the code computes: the gradient slot of the carry stays
    `g q0` for ever, and `(q, p)` evolve by `staleStep` — a leapfrog-shaped step whose first
    half-step uses `g q0` instead of `g (current q)`.  This is the statement the
    correspondence check ties to `HMC.edit`. -/
theorem C28_asWritten_characterisation (half eps : R) (g : List R → List R) (L : Nat) (q0 p0 : List R) :
    (runAsWritten half eps g L q0 p0).grad = g q0 ∧
    ((runAsWritten half eps g L q0 p0).q, (runAsWritten half eps g L q0 p0).p)
      = iterate (staleStep half eps g (g q0)) L (q0, p0) :=
  asWritten_invariant half eps g L (initCarry g q0 p0)

/-- Partial: the code follows leapfrog when at most one step is taken. -/
theorem C28_asWritten_eq_leapfrog_partial (half eps : R) (g : List R → List R) (L : Nat) (q0 p0 : List R)
    (hL : L ≤ 1) :
    ((runAsWritten half eps g L q0 p0).q, (runAsWritten half eps g L q0 p0).p)
      = runSpec half eps g L q0 p0 := by
  match L, hL with
  | 0, _ => rfl
  | 1, _ => rfl

/-- non-vacuity: `L = 1` satisfies the hypothesis. -/
example : (1 : Nat) ≤ 1 := Nat.le_refl 1

/-- Partial: the code follows leapfrog for every `L` when the gradient is constant (flat or
    linear log-density on the selected coordinates). -/
theorem C28_asWritten_eq_leapfrog_partial_const (half eps : R) (g : List R → List R) (L : Nat)
    (q0 p0 : List R) (hg : ∀ q, g q = g q0) :
    ((runAsWritten half eps g L q0 p0).q, (runAsWritten half eps g L q0 p0).p)
      = runSpec half eps g L q0 p0 := by
  rw [(C28_asWritten_characterisation half eps g L q0 p0).2]
  apply iterate_congr
  intro s
  simp [staleStep, leapfrogSpec, hg s.1]

/-- non-vacuity: a constant gradient oracle. -/
example : ∀ q : List Int, (fun _ => [3, -1]) q = (fun _ => [3, -1]) [0, 0] := fun _ => rfl

end Structural

/-! ## The full statement for the code as written, and its refutation -/

/-- Full strength: the as-written kernel follows leapfrog dynamics for all step counts,
    step sizes, gradient oracles and starts (over ℚ, `half = 1/2`). -/
def C28_full : Prop :=
  ∀ (L : Nat) (eps : Rat) (g : List Rat → List Rat) (q0 p0 : List Rat),
    ((runAsWritten (1/2) eps g L q0 p0).q, (runAsWritten (1/2) eps g L q0 p0).p)
      = runSpec (1/2) eps g L q0 p0

/-- The model of the code refutes it: standard-normal target (`log p = -q²/2`, `g q = -q`),
    `eps = 2`, `L = 2`, start `q = 1`, `p = 0`: leapfrog returns to `q = 1`, the code
    reaches `q = -3`. -/
theorem C28_refuted : ¬ C28_full := by
  intro h
  have := congrArg Prod.fst (h 2 2 vneg [1] [0])
  norm_num [runAsWritten, runSpec, iterate, initCarry, kernelAsWritten, leapfrogSpec, vadd, smul, vneg] at this

/-! ## The weight, reversibility (commutative rings) -/
section Algebra
variable {R : Type} [CommRing R]

/-- `alpha` as the code computes it (model-score difference plus standard-normal momenta
    scores, final momenta assessed with `mul = -1`) is `H(start) − H(end)`; the
    log-normaliser is an arbitrary parameter and cancels. -/
theorem C28_alpha_def (half lognorm finalScore origScore : R) (pFinal pOrig : List R)
    (hlen : pFinal.length = pOrig.length) :
    alphaCode half lognorm finalScore origScore pFinal pOrig
      = hamiltonian half origScore pOrig - hamiltonian half finalScore pFinal := by
  have := assessMomenta_diff half lognorm pFinal pOrig hlen
  simp only [alphaCode, hamiltonian]
  linear_combination this

/-- non-vacuity: momenta vectors of equal length. -/
example : ([1, 2] : List Int).length = ([5, 7] : List Int).length := rfl

/-- Negating (or not) the final momenta before assessing them cannot change `alpha`. -/
theorem C28_alpha_flip_invariant (half lognorm finalScore origScore : R) (pFinal pOrig : List R) :
    alphaCode half lognorm finalScore origScore pFinal pOrig
      = finalScore - origScore + assessMomenta half lognorm 1 pFinal - assessMomenta half lognorm 1 pOrig := by
  simp [alphaCode, assessMomenta_flip]

/-- The textbook step is reversible: step, flip the momentum, step again, and you are back
    at the start with the momentum flipped (vectors of matching length). -/
theorem C28_leapfrog_reversible (half eps : R) (g : List R → List R) (q p : List R)
    (hg : ∀ q, (g q).length = q.length) (hp : p.length = q.length) :
    leapfrogSpec half eps g ((leapfrogSpec half eps g (q, p)).1, vneg (leapfrogSpec half eps g (q, p)).2)
      = (q, vneg p) := by
  simp only [leapfrogSpec]
  have e1 : vadd (vneg (vadd (vadd p (smul (eps * half) (g q)))
        (smul (eps * half) (g (vadd q (smul eps (vadd p (smul (eps * half) (g q)))))))))
        (smul (eps * half) (g (vadd q (smul eps (vadd p (smul (eps * half) (g q)))))))
      = vneg (vadd p (smul (eps * half) (g q))) :=
    vadd_vneg_vadd_cancel _ _ (by simp [hg, hp])
  rw [e1]
  have e2 : vadd (vadd q (smul eps (vadd p (smul (eps * half) (g q)))))
        (smul eps (vneg (vadd p (smul (eps * half) (g q))))) = q :=
    vadd_smul_vneg_cancel eps q _ (by simp [hg, hp])
  rw [e2]
  rw [vadd_vneg_vadd_cancel p _ (by simp [hg, hp])]

/-- non-vacuity: a length-preserving gradient and matching momentum. -/
example : (∀ q : List Int, (vneg q).length = q.length) ∧ ([4, 5] : List Int).length = ([1, 2] : List Int).length :=
  ⟨fun q => by simp [vneg], rfl⟩

end Algebra

/-! ## Trace level: only the selected coordinates move -/
section Trace
variable {R : Type} [Add R] [Mul R] [Neg R] [Sub R] [Zero R] [One R]

/-- Whatever the dynamics do (as written or repaired, any `L`, any momenta), every
    coordinate outside the selection keeps its value. -/
theorem C28_unselected_fixed (fresh : Bool) (half lognorm eps : R) (t : Target R) (mask : List Bool)
    (L : Nat) (x0 p0 : List R) :
    gather (mask.map (!·)) (hmcEdit fresh half lognorm eps t mask L x0 p0).x
      = gather (mask.map (!·)) x0 := by
  have key : ∀ (L : Nat) (c : TCarry R),
      gather (mask.map (!·)) (iterate (kernelTrace fresh half eps t mask) L c).x
        = gather (mask.map (!·)) c.x := by
    intro L
    induction L with
    | zero => intro c; rfl
    | succ n ih =>
      intro c
      rw [iterate_succ, ih]
      simp [kernelTrace, gather_not_scatter]
  simpa [hmcEdit] using key L _

/-- The kernel that threads the trace through the scan (what the driver executes as the model
    of `HMC.edit`) IS the abstract as-written kernel on `(q, grad, p)` with the oracle
    `selOracle` — positions, momenta and the final choices — whenever the gradient has the
    shape of the choices and there is one momentum per selected coordinate. -/
theorem C28_trace_level_asWritten (half lognorm eps : R) (t : Target R) (mask : List Bool) (L : Nat)
    (x0 p0 : List R) (hgrad : ∀ x, (t.grad x).length = x.length)
    (hp : p0.length = (gather mask x0).length) :
    let r := runAsWritten half eps (selOracle t mask x0) L (gather mask x0) p0
    (hmcEdit false half lognorm eps t mask L x0 p0).x = scatter mask x0 r.q ∧
    (hmcEdit false half lognorm eps t mask L x0 p0).p = r.p := by
  have hwf : (initCarry (selOracle t mask x0) (gather mask x0) p0).WF (gather mask x0).length :=
    ⟨rfl, length_gather_congr mask _ _ (by simp [hgrad]), hp⟩
  have h := kernelTrace_iterate false half eps t mask x0 hgrad L _ hwf
  have e : embed mask x0 (initCarry (selOracle t mask x0) (gather mask x0) p0)
      = { x := x0, q := gather mask x0, grad := gather mask (t.grad x0), p := p0 } := by
    simp [embed, initCarry, selOracle, scatter_gather]
  rw [e] at h
  simp only [hmcEdit, selectionGradient, h]
  exact ⟨rfl, rfl⟩

/-- Same for the repaired kernel; with `C28_repaired_eq_leapfrog` the repaired `HMC.edit`
    moves the selected coordinates exactly along the textbook trajectory. -/
theorem C28_trace_level_repaired (half lognorm eps : R) (t : Target R) (mask : List Bool) (L : Nat)
    (x0 p0 : List R) (hgrad : ∀ x, (t.grad x).length = x.length)
    (hp : p0.length = (gather mask x0).length) :
    (hmcEdit true half lognorm eps t mask L x0 p0).x = (hmcSpec half eps t mask L x0 p0).x ∧
    (hmcEdit true half lognorm eps t mask L x0 p0).p = (hmcSpec half eps t mask L x0 p0).p := by
  have hwf : (initCarry (selOracle t mask x0) (gather mask x0) p0).WF (gather mask x0).length :=
    ⟨rfl, length_gather_congr mask _ _ (by simp [hgrad]), hp⟩
  have h := kernelTrace_iterate true half eps t mask x0 hgrad L _ hwf
  have e : embed mask x0 (initCarry (selOracle t mask x0) (gather mask x0) p0)
      = { x := x0, q := gather mask x0, grad := gather mask (t.grad x0), p := p0 } := by
    simp [embed, initCarry, selOracle, scatter_gather]
  rw [e] at h
  have hs := C28_repaired_eq_leapfrog half eps (selOracle t mask x0) L (gather mask x0) p0
  simp only [hmcEdit, hmcSpec, selectionGradient, h, ← hs]
  exact ⟨rfl, rfl⟩

/-- non-vacuity for the two trace-level theorems: a quadratic target on three coordinates,
    the middle one selected, one momentum. -/
example : (∀ x : List Int, ((fun (x : List Int) => x.map (· * 2)) x).length = x.length) ∧
    ([7] : List Int).length = (gather [false, true, false] ([1, 2, 3] : List Int)).length :=
  ⟨fun x => by simp, rfl⟩

end Trace

/-- At trace level, for the code as written AND for the repair: the returned weight is
    `H(start) − H(end)` evaluated with the trace scores and the momenta the kernel ends with. -/
theorem C28_alpha_trace {R : Type} [CommRing R] (fresh : Bool) (half lognorm eps : R) (t : Target R)
    (mask : List Bool) (L : Nat) (x0 p0 : List R) (hgrad : ∀ x, (t.grad x).length = x.length)
    (hp : p0.length = (gather mask x0).length) :
    (hmcEdit fresh half lognorm eps t mask L x0 p0).alpha
      = hamiltonian half (t.logp x0) p0
        - hamiltonian half (t.logp (hmcEdit fresh half lognorm eps t mask L x0 p0).x)
            (hmcEdit fresh half lognorm eps t mask L x0 p0).p := by
  have hwf : (initCarry (selOracle t mask x0) (gather mask x0) p0).WF (gather mask x0).length :=
    ⟨rfl, length_gather_congr mask _ _ (by simp [hgrad]), hp⟩
  have h := kernelTrace_iterate fresh half eps t mask x0 hgrad L _ hwf
  have hw := kern_iterate_wf fresh half eps t mask x0 hgrad L _ hwf
  have e : embed mask x0 (initCarry (selOracle t mask x0) (gather mask x0) p0)
      = { x := x0, q := gather mask x0, grad := gather mask (t.grad x0), p := p0 } := by
    simp [embed, initCarry, selOracle, scatter_gather]
  rw [e] at h
  simp only [hmcEdit, selectionGradient, h]
  apply C28_alpha_def
  simp only [embed]
  rw [hw.2.2, hp]

end GenjaxVerif.Leapfrog
