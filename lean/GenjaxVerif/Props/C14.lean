import GenjaxVerif.Lemmas.GFIUpdate
import GenjaxVerif.Props.GFITest
/-!
# C14 — mask: a true flag is transparent and a false flag is inert
-/
namespace GenjaxVerif.GFI
open GenjaxVerif

/-- simulate / assess / generate of a masked function, for every inner program: the inner
    function is run on the remaining arguments; with flag True the score, weight and choices are
    the inner ones and the return value is wrapped in a valid mask; with flag False the score
    and the weight are 0, every choice is invalid (masked by False) and the return value is an
    invalid mask. -/
theorem C14_mask_transparent_or_inert (ds : DistSem) (m : Mode) (hm : m = .sim ∨ m = .assess ∨ m = .gen)
    (p : Prog) (i : In) (r : Res) (h : run ds m (.mask p) i = .ok r) :
    ∃ check iargs r', maskArgs i.args = .ok (check, iargs) ∧
      run ds m p { i with args := .tup iargs } = .ok r' ∧
      r.tr = .mask check r'.tr ∧
      r.tr.ret = Val.mkMask check r'.tr.ret ∧
      r.tr.choices = CMap.maskAll check r'.tr.choices ∧
      (check = true → r.tr.score = r'.tr.score ∧ r.w = r'.w) ∧
      (check = false → r.tr.score = 0 ∧ r.w = 0) := by
  simp only [run, maskRun, bind_ok] at h
  obtain ⟨⟨check, iargs⟩, hma, h2⟩ := h
  rcases hm with rfl | rfl | rfl <;>
  · simp only [bind_ok, pure_ok] at h2
    obtain ⟨r', h4, rfl⟩ := h2
    refine ⟨check, iargs, r', hma, h4, rfl, rfl, rfl, ?_, ?_⟩
    · intro hc; subst hc; simp [Trace.score]
    · intro hc; subst hc; simp [Trace.score]

/-- An invalid-masked choice map has no valid entry: every stored value carries flag False. -/
theorem C14_false_choices_all_invalid (c : CMap) :
    ∀ pv ∈ CMap.maskAll false c, ∃ v, pv.2 = .masked false v := by
  intro pv hpv
  simp only [CMap.maskAll, List.mem_map] at hpv
  obtain ⟨⟨p, v⟩, _, rfl⟩ := hpv
  cases v <;> simp [CVal.mask]

/-- An update that changes the flag (all four transitions) has weight new score − old score. -/
theorem C14_flip_weight (ds : DistSem) (p : Prog) (i : In) (r : Res) (pre : Bool) (inner : Trace)
    (h : run ds .upd (.mask p) i = .ok r) (ho : i.old = some (.mask pre inner)) (hs : Shape p inner)
    (hsafe : Safe i.changed p) :
    r.w = r.tr.score - (Trace.mask pre inner).score :=
  upd_w ds (.mask p) i r _ h ho (by simpa [Shape] using hs) (by simpa [Safe] using hsafe)

/-- tests: both flag values on a concrete program -/
example : (run Test.ds .sim Test.progMask { Test.in1 with args := .tup [.int 1, .int 7] }).toOption.map
    (fun r => (r.tr.score, r.tr.ret)) = some (13, .mask true (.int 2)) := by rfl
example : (run Test.ds .sim Test.progMask { Test.in1 with args := .tup [.int 0, .int 7] }).toOption.map
    (fun r => (r.tr.score, r.w)) = some (0, 0) := by rfl

end GenjaxVerif.GFI
