import GenjaxVerif.Lemmas.Infer
/-!
# C27 — Rejuvenate returns the Metropolis–Hastings log acceptance ratio

`Infer.rejuvenate` is `Rejuvenate.edit` written over the abstract interface `GF`.  The
property: for EVERY model `p` (obeying the Update law), EVERY proposal `q`, argument mapping,
key and trace, the returned weight is

    log p(x') + log q(x | x') − log p(x) − log q(x' | x)

where the backward density `q(x | x')` is assessed at the old values of the proposed
addresses (the discard of the update) with arguments computed from the NEW trace.

On the pinned tree the backward arguments are computed from the discard instead
(`self.argument_mapping(bwd_chm)`), so the full statement is false of the faithful model
(`C27_refuted`); it is proved for the repaired line (`C27_rejuvenate_weight_repaired`) and,
for the pinned code, under the hypothesis that the mapping gives the same arguments on the
discard and on the new choices (`C27_rejuvenate_weight_partial`; e.g. constant mappings).
-/
namespace GenjaxVerif.Infer

/-- The required weight, every term taken from the interface:
    `score(new) + assess_q(discard; argmap(choices new)) − score(old) − score_q(proposal trace)`. -/
def mhLogRatio {A T QA U : Type} (p : GF A T) (q : GF QA U) (argmap : Chm → QA) (k : Key) (tr : T) : Int :=
  let ptr := q.simulate (child k 1) (argmap (p.choices tr))
  let upd := p.update (child k 0) tr (q.choices ptr)
  p.score upd.1 + q.assess upd.2.2 (argmap (p.choices upd.1)) - p.score tr - q.score ptr

/-- The property at full strength, for the code variant `v`. -/
def C27_full (v : Variant) : Prop :=
  ∀ (A T QA U : Type) (p : GF A T) (ok : T → Prop) (q : GF QA U) (argmap : Chm → QA) (k : Key) (tr : T),
    UpdateLawful p ok → ok tr → (rejuvenate v p q argmap k tr).2 = mhLogRatio p q argmap k tr

/-- Full theorem for the repaired line (`bwd_proposal_args = argument_mapping(new_tr.get_choices())`). -/
theorem C27_rejuvenate_weight_repaired (v : Variant) (hv : v.rejuvFix = true) : C27_full v := by
  intro A T QA U p ok q argmap k tr hl htr
  have hw := hl.weight (child k 0) tr (q.choices (q.simulate (child k 1) (argmap (p.choices tr)))) htr
  simp only [rejuvenate, mhLogRatio, hv, if_true]
  omega

/-- What the pinned code returns: the backward arguments come from the discard. -/
theorem C27_weight_as_written {A T QA U : Type} (v : Variant) (hv : v.rejuvFix = false) (p : GF A T)
    (ok : T → Prop) (q : GF QA U) (argmap : Chm → QA) (k : Key) (tr : T) (hl : UpdateLawful p ok) (htr : ok tr) :
    let ptr := q.simulate (child k 1) (argmap (p.choices tr))
    let upd := p.update (child k 0) tr (q.choices ptr)
    (rejuvenate v p q argmap k tr).2
      = p.score upd.1 + q.assess upd.2.2 (argmap upd.2.2) - p.score tr - q.score ptr := by
  have hw := hl.weight (child k 0) tr (q.choices (q.simulate (child k 1) (argmap (p.choices tr)))) htr
  simp only [rejuvenate, hv]
  simp only [Bool.false_eq_true, if_false]
  omega

/-- Partial theorem for the pinned code: whenever the argument mapping yields the same
    proposal arguments on the discard as on the new trace's choices (in particular for every
    constant mapping), the weight is the MH log ratio. -/
theorem C27_rejuvenate_weight_partial {A T QA U : Type} (v : Variant) (p : GF A T) (ok : T → Prop)
    (q : GF QA U) (argmap : Chm → QA) (k : Key) (tr : T) (hl : UpdateLawful p ok) (htr : ok tr)
    (hsame :
      let upd := p.update (child k 0) tr (q.choices (q.simulate (child k 1) (argmap (p.choices tr))))
      argmap upd.2.2 = argmap (p.choices upd.1)) :
    (rejuvenate v p q argmap k tr).2 = mhLogRatio p q argmap k tr := by
  have hw := hl.weight (child k 0) tr (q.choices (q.simulate (child k 1) (argmap (p.choices tr)))) htr
  simp only at hsame
  simp only [rejuvenate, mhLogRatio]
  split
  · omega
  · rw [hsame]; omega

/-- The returned trace holds the proposed choices: it is the update of the old trace by
    exactly the choices the proposal made with `sub_key` on arguments computed from the OLD
    choices, performed with the other half of the split key. -/
theorem C27_proposed_choices {A T QA U : Type} (v : Variant) (p : GF A T) (q : GF QA U)
    (argmap : Chm → QA) (k : Key) (tr : T) :
    (rejuvenate v p q argmap k tr).1
      = (p.update (child k 0) tr (q.choices (q.simulate (child k 1) (argmap (p.choices tr))))).1 := by
  simp [rejuvenate]

/-! ### Refutation witness for the pinned code

A one-address model `x` with `log p(x) = 10·x`, a random-walk proposal `x' = x + 1` with
`log q(x' ; a) = 3·a·x'`, argument mapping `a = chm["x"]`. -/

def wP : GF Unit Int :=
  { simulate := fun _ _ => 1, assess := fun c _ => 10 * (c.get "x").getD 0
    generate := fun _ c _ => ((c.get "x").getD 1, 0), project := fun t _ => 10 * t
    update := fun _ t c => ((c.get "x").getD t, 10 * (c.get "x").getD t - 10 * t, [("x", t)])
    choices := fun t => [("x", t)], score := fun t => 10 * t }

def wQ : GF Int Int :=
  { simulate := fun _ a => a + 1, assess := fun c a => 3 * a * (c.get "x").getD 0
    generate := fun _ _ a => (a + 1, 0), project := fun _ _ => 0
    update := fun _ t _ => (t, 0, []), choices := fun t => [("x", t)], score := fun t => 3 * (t - 1) * t }

def wArgmap (c : Chm) : Int := (c.get "x").getD 0

theorem wP_lawful : UpdateLawful wP (fun _ => True) :=
  ⟨fun _ _ _ _ => by simp [wP], fun _ _ _ _ => trivial⟩

/-- old x = 1, proposed x' = 2: required 10·2 + 3·2·1 − 10·1 − 3·1·2 = 10, pinned code gives
    10·2 + 3·1·1 − 10 − 6 = 7. -/
example : (rejuvenate Variant.pinned wP wQ wArgmap [] 1).2 = 7 ∧ mhLogRatio wP wQ wArgmap [] 1 = 10 := by decide

theorem C27_refuted : ¬ C27_full Variant.pinned := by
  intro h
  have := h Unit Int Int Int wP (fun _ => True) wQ wArgmap [] 1 wP_lawful trivial
  revert this
  decide

/-- Non-vacuity of the partial theorem's hypothesis: a constant argument mapping. -/
example : (rejuvenate Variant.pinned wP wQ (fun _ => 5) [] 1).2 = mhLogRatio wP wQ (fun _ => 5) [] 1 :=
  C27_rejuvenate_weight_partial Variant.pinned wP (fun _ => True) wQ (fun _ => 5) [] 1 wP_lawful trivial rfl
example : (rejuvenate Variant.repaired wP wQ wArgmap [] 1).2 = 10 := by decide

/-! ### The concrete straight-line programs run by the driver satisfy the Update law -/

/-- A trace of program `p`: one record per site. -/
def traceOf (p : Prog) (t : PTrace) : Prop := t.sites.length = p.length

theorem C27_prog_update_lawful (seed : Nat) (p : Prog) : UpdateLawful (progGF seed p) (traceOf p) := by
  constructor
  · intro k tr c h
    have := updSites_weight c tr.args p tr.sites [] 0 [] h
    simp only [progGF, progUpdate, PTrace.score]
    simp only [sumLp, List.map_nil, List.sum_nil] at this
    simpa using this
  · intro k tr c h
    have := updSites_length c tr.args p tr.sites [] 0 [] h
    simpa [progGF, progUpdate, traceOf] using this

/-- Hence the repaired `Rejuvenate.edit` returns the MH log ratio on every straight-line
    model program, proposal program, argument mapping, key and trace. -/
theorem C27_prog_repaired (seed : Nat) (p : Prog) {QA U : Type} (q : GF QA U) (argmap : Chm → QA) (k : Key)
    (tr : PTrace) (h : traceOf p tr) :
    (rejuvenate Variant.repaired (progGF seed p) q argmap k tr).2 = mhLogRatio (progGF seed p) q argmap k tr :=
  C27_rejuvenate_weight_repaired Variant.repaired rfl _ _ _ _ _ _ _ _ _ _ (C27_prog_update_lawful seed p) h

end GenjaxVerif.Infer
