import GenjaxVerif.Props.C03
import GenjaxVerif.Props.C05
/-!
# C35 — masked constraint values act as conditional constraints

A constraint is consumed only at primitive choices (`leaf`), after being narrowed along the
address by `get_submap` (static components, and the index components of the vector
combinators, which hand element `k` the sub-map `c.sub (.i k)` — so a vectorised mask is
consumed elementwise).  Hence the two leaf-level equivalences below lift to every program.
-/
namespace GenjaxVerif.GFI
open GenjaxVerif

/-- In `generate`: a value under a mask with flag True behaves exactly like the bare value, and
    with flag False exactly like an absent constraint. -/
theorem C35_generate_masked (ds : DistSem) (d : Nat) (i j : In) (v : Int)
    (hk : j.key = i.key) (ha : j.args = i.args) :
    (i.c.leaf = some (.masked true v) → j.c.leaf = some (.plain v) → leaf ds .gen d i = leaf ds .gen d j) ∧
    (i.c.leaf = some (.masked false v) → j.c.leaf = none → leaf ds .gen d i = leaf ds .gen d j) := by
  constructor <;> intro h1 h2 <;> unfold leaf <;> simp [h1, h2, hk, ha]

/-- In `update`: the new trace and the weight are those of the bare constraint (flag True) or of
    no constraint (flag False); only the recorded backward value carries the flag along. -/
theorem C35_update_masked (ds : DistSem) (d : Nat) (i j : In) (v : Int) (ri rj : Res)
    (ho : j.old = i.old) (ha : j.args = i.args)
    (hi : leaf ds .upd d i = .ok ri) (hj : leaf ds .upd d j = .ok rj) :
    (i.c.leaf = some (.masked true v) → j.c.leaf = some (.plain v) → ri.tr = rj.tr ∧ ri.w = rj.w) ∧
    (i.c.leaf = some (.masked false v) → j.c.leaf = none → ri.tr = rj.tr ∧ ri.w = rj.w) := by
  constructor <;> intro h1 h2
  all_goals
    unfold leaf at hi hj
    simp only [oldOf, ho, ha] at hi hj
    cases hold : i.old with
    | none => simp [hold, bind, Except.bind] at hi
    | some t =>
      cases t <;> simp [hold, h1, h2, bind, Except.bind, pure, Except.pure] at hi hj
      subst hi hj
      exact ⟨rfl, rfl⟩

/-- Element `k` of a vmapped / scanned call sees exactly the sub-map at index `k`. -/
theorem C35_vector_elementwise (axes : List Ax) (as : List Val) (i i' : In) (k : Nat)
    (h : vmapElem axes as i k = .ok i') : i'.c = CMap.sub i.c (.i k) := by
  simp only [vmapElem, bind_ok, pure_ok] at h
  obtain ⟨_, _, _, _, rfl⟩ := h
  rfl

end GenjaxVerif.GFI
