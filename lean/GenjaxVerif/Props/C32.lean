import GenjaxVerif.Props.C15
/-!
# C32 — generative function closures and keyword handling are transparent

A closure `gen_fn(*stored)` is modelled as the contramap that prepends the stored arguments
(`Derived.closure`), which is what `GenerativeFunctionClosure`'s methods do (`full_args =
self.args + args`).  Keyword arguments are merged into the same call by `handle_kwargs`; the
harness exercises them, the model treats a keyword call as the corresponding positional call.
-/
namespace GenjaxVerif.GFI
open GenjaxVerif

theorem evalL_lits (env : List Val) (xs : List Int) :
    Expr.evalL env (xs.map Expr.lit) = .ok (xs.map Val.int) := by
  induction xs with
  | nil => rfl
  | cons x xs ih => simp [Expr.evalL, Expr.eval, ih, bind, Except.bind, pure, Except.pure]

theorem evalL_append (env : List Val) (a b : List Expr) (va vb : List Val)
    (ha : Expr.evalL env a = .ok va) (hb : Expr.evalL env b = .ok vb) :
    Expr.evalL env (a ++ b) = .ok (va ++ vb) := by
  induction a generalizing va with
  | nil => simp [Expr.evalL] at ha; subst ha; simpa using hb
  | cons e es ih =>
    simp only [Expr.evalL, bind_ok, pure_ok] at ha
    obtain ⟨v, hv, vs, hvs, rfl⟩ := ha
    simp [Expr.evalL, hv, ih vs hvs, bind, Except.bind, pure, Except.pure]

theorem evalL_vars (env : List Val) : ∀ (n : Nat), n ≤ env.length →
    Expr.evalL env ((List.range n).map Expr.var) = .ok (env.take n)
  | 0, _ => rfl
  | n + 1, h => by
    rw [List.range_succ, List.map_append]
    have hn : n < env.length := by omega
    rw [evalL_append env _ _ (env.take n) [env[n]] (evalL_vars env n (by omega))
      (by simp [Expr.evalL, Expr.eval, List.getElem?_eq_getElem hn, bind, Except.bind, pure, Except.pure])]
    rw [List.take_add_one, List.getElem?_eq_getElem hn]; rfl

/-- The inner function is called with the stored arguments prepended to the call-time arguments. -/
theorem C32_closure_args (stored : List Int) (args : List Val) :
    Pre.apply (.exprs (stored.map Expr.lit ++ (List.range args.length).map Expr.var)) args =
      .ok (stored.map Val.int ++ args) := by
  simp only [Pre.apply]
  rw [evalL_append args _ _ _ _ (evalL_lits args stored) (evalL_vars args args.length (by omega))]
  simp

/-- Every GFI method (every mode, including edit / update and regenerate) of a closure is the
    wrapped function's method on `stored ++ args`; choices, score, weight, backward request and
    return value are the wrapped function's. -/
theorem C32_closure_transparent (ds : DistSem) (m : Mode) (p : Prog) (stored : List Int) (args : List Val)
    (i : In) (r : Res) (ha : i.args = .tup args)
    (h : run ds m (Derived.closure p stored args.length) i = .ok r) :
    ∃ o r', dimapOld m i.old = .ok o ∧
      run ds m p { i with old := o, args := .tup (stored.map Val.int ++ args) } = .ok r' ∧
      r.tr.ret = r'.tr.ret ∧ r.w = r'.w ∧ r.bwd = r'.bwd ∧ r.tr.score = r'.tr.score ∧
      r.tr.choices = r'.tr.choices := by
  obtain ⟨as, ia, o, r', rv, has, hia, ho, hr', hrv, _, hret, hw, hb, hs, hc⟩ :=
    C15_dimap_transparent ds m _ p _ i r h
  rw [ha] at has
  simp [argList] at has; subst has
  rw [C32_closure_args] at hia
  simp at hia; subst hia
  refine ⟨o, r', ho, hr', ?_, hw, hb, hs, hc⟩
  rw [hret]
  simp [Derived.retId, Expr.eval] at hrv
  exact hrv.symm

end GenjaxVerif.GFI
