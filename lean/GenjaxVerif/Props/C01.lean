import GenjaxVerif.Lemmas.GFIReplay
import GenjaxVerif.Lemmas.GFIArgs
import GenjaxVerif.Props.GFITest
/-!
# C01 — every trace agrees with `assess` on its own choices and arguments

`run ds m p i` is the model of simulate / generate / update / regenerate (mode `m`) of the
program `p`; `assess ds p c a` is `assess`.  Statements only.
-/
namespace GenjaxVerif.GFI
open GenjaxVerif

/-- The property at full strength: for every program, every operation (any mode, any key,
    constraint, selection, previous trace, arguments) and every trace it returns,
    `assess(trace.choices, args) = (trace.score, trace.retval)`. -/
def C01_full : Prop :=
  ∀ (ds : DistSem) (m : Mode) (p : Prog) (i : In) (r : Res), run ds m p i = .ok r →
    assess ds p r.tr.choices i.args = .ok (r.tr.score, r.tr.ret)

/-- Proved part: the full statement for every trace in which every traced call of a
    static function made at least one random choice under pairwise prefix-free addresses
    (`Good`, a decidable predicate on the returned trace).  The trace may come from ANY
    operation on ANY previous trace, so this covers arbitrary edit histories. -/
theorem C01_trace_assess_partial (ds : DistSem) (m : Mode) (p : Prog) (i : In) (r : Res)
    (h : run ds m p i = .ok r) (hg : Good r.tr) :
    assess ds p r.tr.choices i.args = .ok (r.tr.score, r.tr.ret) := by
  have := replay ds m p i r h hg
    { c := r.tr.choices, sel := .none, old := none, key := [], args := i.args } rfl rfl rfl
  simp [assess, this, replayed, Except.map]

/-- The same, phrased exactly as the property: with the trace's OWN recorded arguments
    (`trace.get_args()`), which are the arguments the operation was given (`run_args`). -/
theorem C01_trace_assess_own_args_partial (ds : DistSem) (m : Mode) (p : Prog) (i : In) (r : Res)
    (h : run ds m p i = .ok r) (hg : Good r.tr) :
    assess ds p r.tr.choices r.tr.args = .ok (r.tr.score, r.tr.ret) := by
  rw [run_args ds m p i r h]; exact C01_trace_assess_partial ds m p i r h hg

/-- Stronger form: `assess` rebuilds exactly the same trace, with weight its score. -/
theorem C01_assess_rebuilds_trace (ds : DistSem) (m : Mode) (p : Prog) (i : In) (r : Res)
    (h : run ds m p i = .ok r) (hg : Good r.tr) (j : In) (hc : j.c = r.tr.choices)
    (ha : j.args = i.args) (ho : j.old = none) :
    run ds .assess p j = .ok ⟨r.tr, r.tr.score, [], true⟩ :=
  replay ds m p i r h hg j hc ha ho

/-- The full statement is FALSE of the model (as it is of the implementation): a traced call
    that makes no random choice leaves an empty sub-map, and `AssessHandler` raises
    `MissingAddress` on it.  Witness: `@gen def f(): g() @ "y"` with `g` choice-free. -/
theorem C01_refuted : ¬ C01_full := by
  intro h
  have h1 : run Test.ds .sim Test.progEmpty Test.in0 =
      .ok ⟨.static (.tup []) (.int 0) [(["y"], .static (.tup []) (.int 0) [])], 0, [], true⟩ := rfl
  have h2 := h Test.ds .sim Test.progEmpty Test.in0 _ h1
  have h3 : assess Test.ds Test.progEmpty [] (.tup []) = .error .missing := rfl
  have h4 : assess Test.ds Test.progEmpty [] (.tup []) = .ok (0, .int 0) := h2
  rw [h3] at h4
  cases h4

/-- Non-vacuity (a test): the hypotheses of the partial theorem hold for a concrete
    non-trivial simulated trace. -/
example : ∃ r, run Test.ds .sim Test.prog1 Test.in1 = .ok r ∧ Good r.tr ∧ r.tr.score = 27 := by
  refine ⟨⟨Test.trace1, 0, [], true⟩, rfl, ?_, rfl⟩
  simp [Test.trace1, Good, GoodAL, GoodL, CMap.Incomp, Trace.choices, Trace.choicesL, CMap.pre]

end GenjaxVerif.GFI
