import GenjaxVerif.Lemmas.GFIReplay
import GenjaxVerif.Props.GFITest
/-!
# C04 — simulate samples the program's distribution and is a function of the key

What the model can carry: `simulate` is a function of (key, arguments); every freshly drawn
choice is `sample d key' args` for the key path `key'` handed to its site; the static language
and vmap derive pairwise distinct, prefix-free keys for their sites; scan does NOT (refuted).
The statistical content (frequencies converge) is outside: it is the PRNG's.
-/
namespace GenjaxVerif.GFI
open GenjaxVerif

/-- Determinism: equal keys and arguments give equal traces. -/
theorem C04_simulate_deterministic (ds : DistSem) (p : Prog) (k : KeyPath) (a : Val) :
    ∀ t1 t2, simulate ds p k a = .ok t1 → simulate ds p k a = .ok t2 → t1 = t2 := by
  intro t1 t2 h1 h2; rw [h1] at h2; cases h2; rfl

/-- A simulated primitive choice is the sampler applied to the key path handed to that site. -/
theorem C04_site_value (ds : DistSem) (d : Nat) (i : In) (r : Res) (h : run ds .sim (.dist d) i = .ok r) :
    r.tr = .dist d i.args (ds.sample d i.key i.args) (ds.lp d (ds.sample d i.key i.args) i.args) := by
  simp only [run, leaf] at h; simp at h; subst h; rfl

/-- Key derivation of the static language: statement number `n` (from 1) gets `fold_in(key, n)`. -/
theorem C04_static_site_key (m : Mode) (i i' : In) (olds) (st : SState) (addr : List String) (a : List Val)
    (h : bindIn m i olds st addr a = .ok i') : i'.key = i.key.child st.counter := by
  unfold bindIn at h
  split at h
  · simp at h
  · split at h
    · simp at h
    · split at h
      · simp at h
      · simp at h; subst h; rfl

/-- Two different statements (or two different vmap elements) get keys neither of which is a
    prefix of the other, so everything derived below them stays distinct. -/
theorem C04_children_prefix_free (k : KeyPath) (a b : Nat) (hab : a ≠ b) (s t : List Nat) :
    k.child a ++ s ≠ k.child b ++ t := by
  intro h
  simp only [KeyPath.child, List.append_assoc, List.append_cancel_left_eq, List.cons_append, List.nil_append,
    List.cons.injEq] at h
  exact hab h.1

theorem C04_vmap_element_key (axes : List Ax) (as : List Val) (i ik : In) (k : Nat)
    (h : vmapElem axes as i k = .ok ik) : ik.key = i.key.child k := by
  simp only [vmapElem, bind_ok, pure_ok] at h
  obtain ⟨_, _, _, _, rfl⟩ := h
  rfl

/-- The full independence claim: distinct primitive sites of one `simulate` never receive the
    same key.  Stated on the observable level with a key-revealing sampler (`keyDS`: the sampled
    value is an injective code of the key path, for paths over digits < 9). -/
def keyDS : DistSem := ⟨fun _ key _ => key.foldl (fun acc x => acc * 10 + (x + 1 : Nat)) 0, fun _ v _ => v⟩

/-- The values of the choices of a simulated trace (under `keyDS`: codes of the sites' keys). -/
def simValues (ds : DistSem) (p : Prog) (k : KeyPath) (a : Val) : Option (List CVal) :=
  (simulate ds p k a).toOption.map fun t => t.choices.map (·.2)

def C04_full : Prop :=
  ∀ (p : Prog) (k : KeyPath) (a : Val) (vs : List CVal), simValues keyDS p k a = some vs → vs.Nodup

/-- kernel(c, x):  u ~ d0() @ "x";  v ~ inner() @ "y"  with  inner(): d0() @ "a" -/
def chainKernel : Prog :=
  .static (.bind ["x"] (.dist 0) [] (.bind ["y"] (.static (.bind ["a"] (.dist 0) [] (.ret (.var 0)))) []
    (.ret (.tup [.var 0, .tup []]))))

/-- REFUTED: `Scan` chains `key = fold_in(key, count)` and hands that same key to the kernel, so
    iteration 1's nested site `y/a` (key …,0,1,2,1) and iteration 2's site `x` (same key) draw the
    same randomness — the implementation shows identical samples there for every seed. -/
theorem C04_refuted : ¬ C04_full := by
  intro h
  have h1 : simValues keyDS (.scan chainKernel (some 3)) [0] (.tup [.int 0, .tup []]) =
      some [.plain 112, .plain 1132, .plain 1122, .plain 11232, .plain 11232, .plain 112332] := by rfl
  have := h _ _ _ _ h1
  revert this
  decide

/-- Proved part for the static language and vmap is `C04_children_prefix_free` with
    `C04_static_site_key` / `C04_vmap_element_key`; non-vacuity (a test): no collision without scan. -/
example : ∃ vs, simValues keyDS Test.prog1 [0] (.tup [.int 3]) = some vs ∧ vs.Nodup :=
  ⟨_, rfl, by decide⟩

end GenjaxVerif.GFI
