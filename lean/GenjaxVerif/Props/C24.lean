import GenjaxVerif.Lemmas.Dist
/-!
# C24 — Distribution wrappers agree with their (TFP) densities — PARTIAL

What is proved here, for an ARBITRARY base `(sample, log_prob)` (in particular for every
`tfd.X(params)`), every key, every argument package, every value, every old trace:
the score / weight bookkeeping of `Distribution` / `ExactDensity` / `exact_density` /
`tfp_distribution` is exactly "the summed base `log_prob` over leaves", in every branch
(None / value / Mask constraints, Python-bool and array flags, NoChange / changed argdiffs,
selected / unselected regenerate, project), errors of the base propagate, and a keyword
invocation equals the positional one it binds to.

What is NOT proved (and cannot be, in Lean): that `tfd.X(params).log_prob` is the density the
docstring of `genjax.x` promises, that samples lie in the support and carry the documented
dtype.  `C24_full` below names that residue; the harness checks it numerically against direct
TFP calls on every exported wrapper (the oracle sweep), and ties this model to the code.
Statements only; model functions live in `Model/Dist.lean`.
-/
namespace GenjaxVerif.Dist

variable {K A V : Type}

/-- Full-strength C24 for one wrapper, relative to an oracle: `impl` is the base the wrapper
    `genjax.x` actually builds from its parameters, `oracle` the documented TFP distribution.
    C24 holds for the wrapper iff all GFI scores/weights computed through `impl` are those computed
    through `oracle` (and samples are in `support`).  The theorems below reduce this to
    `impl.lp = oracle.lp ∧ impl.sample = oracle.sample` (see `C24_partial`); that residual equation is
    about TFP numerics / wrapper-table wiring and is the harness's oracle sweep. -/
def C24_full (impl oracle : Base K A V) (support : A → V → Prop) : Prop :=
  (∀ k a tr, simulate impl k a = .ok tr →
      (∃ l, oracle.lp tr.value a = .ok l ∧ tr.score = l.total) ∧ support a tr.value) ∧
  (∀ v a s, assess impl (.value v) a = .ok s → ∃ l, oracle.lp v a = .ok l ∧ s = (l.total, v)) ∧
  (∀ k v a tr w, generate impl k (.value v) a = .ok (tr, w) →
      ∃ l, oracle.lp v a = .ok l ∧ w = l.total ∧ tr.score = l.total ∧ tr.value = v) ∧
  (∀ tr v ad r, Coherent impl tr → editUpdate impl tr (.value v) ad = .ok r →
      ∃ ln lo, oracle.lp v ad.primals = .ok ln ∧ oracle.lp tr.value tr.args = .ok lo ∧
        r.w = ln.total - lo.total)

/-! ## simulate -/

/-- `simulate` succeeds with `tr` iff the base sampled `tr.value`, the base log-density of that
    value has leaves `l`, and the score is their sum (`l.total`; the scalar itself for a 0-d result). -/
theorem C24_simulate_score (d : Base K A V) (k : K) (a : A) (tr : Tr A V) :
    simulate d k a = .ok tr ↔
      d.sample k a = .ok tr.value ∧ (∃ l, d.lp tr.value a = .ok l ∧ tr.score = l.total) ∧ tr.args = a := by
  rw [simulate_ok, randomWeighted_ok]
  constructor
  · rintro ⟨⟨h1, h2⟩, h3⟩; exact ⟨h1, h2, h3⟩
  · rintro ⟨h1, h2, h3⟩; exact ⟨⟨h1, h2⟩, h3⟩

example : ∃ tr, simulate (⟨fun k a => .ok (k + a), fun v a => .ok (.arr [v, a, 7])⟩ : Base Int Int Int) 2 3
    = .ok tr ∧ tr.score = 15 := ⟨_, rfl, by decide⟩

/-- The sum really is the sum of the leaves. -/
theorem C24_total_is_sum (x : Int) (xs ys : List Int) :
    (LP.scalar x).total = x ∧ (LP.arr (x :: xs)).total = x + (LP.arr xs).total ∧
    (LP.arr []).total = 0 ∧ (LP.arr (xs ++ ys)).total = (LP.arr xs).total + (LP.arr ys).total := by
  refine ⟨rfl, ?_, rfl, LP.total_arr_append xs ys⟩
  simp

/-- Sampler failures, then density failures, propagate out of `simulate`. -/
theorem C24_simulate_error (d : Base K A V) (k : K) (a : A) (e : Err) :
    simulate d k a = .error e ↔
      d.sample k a = .error e ∨ ∃ v, d.sample k a = .ok v ∧ d.lp v a = .error e := by
  unfold simulate randomWeighted
  cases hs : d.sample k a with
  | error e' => simp
  | ok v =>
    simp only [bind_ok, reduceCtorEq, false_or, Except.ok.injEq, exists_eq_left']
    cases hl : estimateLogpdf d v a with
    | error e' =>
      have := estimateLogpdf_error.1 hl
      simp [this]
    | ok w =>
      obtain ⟨l, h1, _⟩ := estimateLogpdf_ok.1 hl
      simp [h1]

/-! ## assess -/

/-- `assess` on a value: the summed base log-density of that value, and the value. -/
theorem C24_assess (d : Base K A V) (v : V) (a : A) :
    assess d (.value v) a = (d.lp v a).map (fun l => (l.total, v)) := by
  simp only [assess, estimateLogpdf_eq]
  cases d.lp v a <;> rfl

/-- A masked sample is scored on its payload (the flag is only inspected under checkify). -/
theorem C24_assess_masked (d : Base K A V) (f : Flag) (v : V) (a : A) :
    assess d (.masked f v) a = assess d (.value v) a := rfl

/-- Error branch: no value to score. -/
theorem C24_assess_none (d : Base K A V) (a : A) : assess d .none a = .error .missingValue := rfl

/-! ## importance / generate -/

/-- Full constraint: weight = score = summed base log-density of the constraint value. -/
theorem C24_importance_value (d : Base K A V) (k : K) (v : V) (a : A) :
    generate d k (.value v) a = (d.lp v a).map (fun l => (⟨a, v, l.total⟩, l.total)) := by
  simp only [generate, estimateLogpdf_eq]
  cases d.lp v a <;> rfl

/-- No constraint: `simulate`, weight 0. -/
theorem C24_importance_none (d : Base K A V) (k : K) (a : A) :
    generate d k .none a = (simulate d k a).map (fun tr => (tr, 0)) := by
  simp only [generate]
  cases simulate d k a <;> rfl

/-- Mask constraint, any staging mode of the flag: both arms are evaluated (true arm first, so
    its failure wins), then a true flag behaves as the full constraint and a false flag as none. -/
theorem C24_importance_masked (d : Base K A V) (k : K) (f : Flag) (v : V) (a : A) :
    generate d k (.masked f v) a =
      (do let x ← generate d k (.value v) a
          let y ← generate d k .none a
          pure (if f.val then x else y)) := by
  rw [C24_importance_value, C24_importance_none]
  simp only [generate, simulate, estimateLogpdf_eq]
  cases d.lp v a with
  | error e => rfl
  | ok l =>
    cases randomWeighted d k a with
    | error e => rfl
    | ok p => cases f.val <;> simp [Except.map]

/-- Summary on success, all constraint kinds: the trace is coherent (score = Σ base log-density of
    its value), and constrained ⇒ value = constraint, weight = score; unconstrained ⇒ value = the
    base's sample, weight 0; a mask acts as one or the other according to its flag. -/
theorem C24_importance_weight (d : Base K A V) (k : K) (c : Constraint V) (a : A) (tr : Tr A V) (w : Int)
    (h : generate d k c a = .ok (tr, w)) :
    Coherent d tr ∧ tr.args = a ∧
      (if c.overwrites then tr.value = c.resolve tr.value ∧ w = tr.score
       else d.sample k a = .ok tr.value ∧ w = 0) := by
  have hv : ∀ v, generate d k (.value v) a = .ok (tr, w) →
      Coherent d tr ∧ tr.args = a ∧ tr.value = v ∧ w = tr.score := by
    intro v h
    rw [C24_importance_value] at h
    cases hl : d.lp v a with
    | error e => rw [hl] at h; cases h
    | ok l => rw [hl] at h; cases h; exact ⟨⟨l, hl, rfl⟩, rfl, rfl, rfl⟩
  have hn : generate d k .none a = .ok (tr, w) →
      Coherent d tr ∧ tr.args = a ∧ d.sample k a = .ok tr.value ∧ w = 0 := by
    intro h
    rw [C24_importance_none] at h
    cases hs : simulate d k a with
    | error e => rw [hs] at h; cases h
    | ok t =>
      rw [hs] at h; cases h
      obtain ⟨h1, ⟨l, h2, h3⟩, h4⟩ := (C24_simulate_score d k a tr).1 hs
      exact ⟨⟨l, by rw [h4]; exact h2, h3⟩, h4, h1, rfl⟩
  cases c with
  | none => simpa [Constraint.overwrites] using hn h
  | value v =>
    obtain ⟨h1, h2, h3, h4⟩ := hv v h
    simp [Constraint.overwrites, Constraint.resolve, h1, h2, h3, h4]
  | masked f v =>
    rw [C24_importance_masked] at h
    cases hx : generate d k (.value v) a with
    | error e => rw [hx] at h; cases h
    | ok x =>
      cases hy : generate d k .none a with
      | error e => rw [hx, hy] at h; cases h
      | ok y =>
        rw [hx, hy] at h
        simp only [bind_ok, pure_ok, Except.ok.injEq] at h
        cases hf : f.val with
        | true =>
          rw [hf] at h; simp only [if_true] at h; subst h
          obtain ⟨h1, h2, h3, h4⟩ := hv v hx
          simp [Constraint.overwrites, Constraint.resolve, hf, h1, h2, h3, h4]
        | false =>
          rw [hf] at h; simp only [Bool.false_eq_true, if_false] at h; subst h
          simpa [Constraint.overwrites, hf] using hn hy

example : ∃ r, generate (⟨fun k a => .ok (k + a), fun v a => .ok (.arr [v, a, 7])⟩ : Base Int Int Int) 2
    (.masked (.dyn true) 5) 3 = .ok r ∧ r.1.value = 5 ∧ r.2 = 15 := ⟨_, rfl, rfl, by decide⟩

/-- `Choice.build`: a Python-bool mask never reaches the distribution — concretely true is the
    plain constraint, concretely false is no constraint. -/
theorem C24_importance_concrete_mask (d : Base K A V) (k : K) (v : V) (a : A) :
    generate d k (mkConstraint (.conc true) v) a = generate d k (.value v) a ∧
    generate d k (mkConstraint (.conc false) v) a = generate d k .none a := ⟨rfl, rfl⟩

/-! ## update -/

/-- Every arm of `edit_update`: the weight is new score − old score, the new trace is coherent under
    the NEW arguments, its value is the constraint applied to the old value, and the backward
    constraint is: nothing (no constraint), the old value (plain constraint), the old value under the
    same flag (mask constraint).  The argdiff tags play no role. -/
theorem C24_update_weight (d : Base K A V) (tr : Tr A V) (c : Constraint V) (ad : Argdiffs A)
    (r : EditResult A V) (h : editUpdate d tr c ad = .ok r) :
    r.w = r.tr.score - tr.score ∧ Coherent d r.tr ∧ r.tr.args = ad.primals ∧
    r.tr.value = c.resolve tr.value ∧
    r.bwd = (match c with
      | .none => .none
      | .value _ => .value tr.value
      | .masked f _ => mkConstraint f tr.value) := by
  have key : ∀ (v : V) (ret : Tag) (b : Constraint V),
      (do let fwd ← estimateLogpdf d v ad.primals
          pure (⟨⟨ad.primals, v, fwd⟩, fwd - tr.score, ret, b⟩ : EditResult A V)) = .ok r →
      r.w = r.tr.score - tr.score ∧ Coherent d r.tr ∧ r.tr.args = ad.primals ∧ r.tr.value = v ∧ r.bwd = b := by
    intro v ret b h
    cases he : estimateLogpdf d v ad.primals with
    | error e => rw [he] at h; cases h
    | ok fwd =>
      rw [he] at h; cases h
      obtain ⟨l, hl, hw⟩ := estimateLogpdf_ok.1 he
      exact ⟨rfl, ⟨l, hl, hw⟩, rfl, rfl, rfl⟩
  cases c with
  | none => exact key tr.value _ _ h
  | value v => exact key v _ _ h
  | masked f nv =>
    unfold editUpdate at h
    simp only at h
    -- reduce `flagCond` to the selected arm
    have sel : ∃ v, v = (if f.val then nv else tr.value) ∧
        (do let fwd ← estimateLogpdf d v ad.primals
            pure (⟨⟨ad.primals, v, fwd⟩, fwd - tr.score, Tag.unknown, mkConstraint f tr.value⟩ : EditResult A V)) = .ok r := by
      cases f with
      | conc b =>
        cases b with
        | true =>
          refine ⟨nv, rfl, ?_⟩
          simp only [flagCond] at h
          cases he : estimateLogpdf d nv ad.primals with
          | error e => rw [he] at h; cases h
          | ok fwd => rw [he] at h; exact h
        | false =>
          refine ⟨tr.value, rfl, ?_⟩
          simp only [flagCond] at h
          cases he : estimateLogpdf d tr.value ad.primals with
          | error e => rw [he] at h; cases h
          | ok fwd => rw [he] at h; exact h
      | dyn b =>
        simp only [flagCond] at h
        cases h1 : estimateLogpdf d nv ad.primals with
        | error e => rw [h1] at h; cases h
        | ok f1 =>
          cases h2 : estimateLogpdf d tr.value ad.primals with
          | error e => rw [h1, h2] at h; cases h
          | ok f2 =>
            rw [h1, h2] at h
            cases b with
            | true => exact ⟨nv, rfl, by rw [h1]; exact h⟩
            | false => exact ⟨tr.value, rfl, by rw [h2]; exact h⟩
    obtain ⟨v, hv, hk⟩ := sel
    obtain ⟨a1, a2, a3, a4, a5⟩ := key v _ _ hk
    exact ⟨a1, a2, a3, by rw [a4, hv]; rfl, a5⟩

example : ∃ r, editUpdate (⟨fun k a => .ok (k + a), fun v a => .ok (.arr [v, a, 7])⟩ : Base Int Int Int)
    ⟨3, 5, 15⟩ (.masked (.dyn false) 9) ⟨4, .unknown⟩ = .ok r ∧ r.w = 1 ∧ r.tr.value = 5 :=
  ⟨_, rfl, by decide, rfl⟩

/-- The discard carries the old value exactly when the constraint overwrote it: re-applying the
    backward constraint to any site value `x` yields the old value iff `c` overwrote, else `x`. -/
theorem C24_discard_exact (c : Constraint V) (old x : V) :
    (match c with
      | .none => (.none : Constraint V)
      | .value _ => .value old
      | .masked f _ => mkConstraint f old).resolve x = (if c.overwrites then old else x) := by
  cases c with
  | none => rfl
  | value v => rfl
  | masked f v =>
    cases f with
    | conc b => cases b <;> rfl
    | dyn b => cases b <;> rfl

/-- On a coherent old trace the update weight is Σ lp(new value; new args) − Σ lp(old value; old args). -/
theorem C24_update_weight_coherent (d : Base K A V) (tr : Tr A V) (c : Constraint V) (ad : Argdiffs A)
    (r : EditResult A V) (hc : Coherent d tr) (h : editUpdate d tr c ad = .ok r) :
    ∃ ln lo, d.lp (c.resolve tr.value) ad.primals = .ok ln ∧ d.lp tr.value tr.args = .ok lo ∧
      r.w = ln.total - lo.total := by
  obtain ⟨hw, ⟨ln, h1, h2⟩, ha, hv, _⟩ := C24_update_weight d tr c ad r h
  obtain ⟨lo, h3, h4⟩ := hc
  refine ⟨ln, lo, ?_, h3, ?_⟩
  · rw [← hv, ← ha]; exact h1
  · rw [hw, h2, h4]

/-- Errors of the re-scoring propagate (no constraint / plain constraint arms). -/
theorem C24_update_error (d : Base K A V) (tr : Tr A V) (v : V) (ad : Argdiffs A) (e : Err)
    (h : d.lp v ad.primals = .error e) : editUpdate d tr (.value v) ad = .error e := by
  unfold editUpdate
  simp only
  rw [estimateLogpdf_error.2 h]; rfl

example : ∃ e, editUpdate (⟨fun _ _ => .ok 1, fun _ _ => .error (.base 3)⟩ : Base Unit Int Int)
    ⟨0, 1, 5⟩ (.value 2) ⟨7, .unknown⟩ = .error e := ⟨_, rfl⟩

/-- Applying the backward constraint of a plain-constraint update (with the old arguments) restores
    the old coherent trace, and the two weights cancel. -/
theorem C24_update_roundtrip (d : Base K A V) (tr : Tr A V) (v : V) (ad : Argdiffs A) (t : Tag)
    (r : EditResult A V) (hc : Coherent d tr) (h : editUpdate d tr (.value v) ad = .ok r) :
    ∃ r', editUpdate d r.tr r.bwd ⟨tr.args, t⟩ = .ok r' ∧ r'.tr = tr ∧ r.w + r'.w = 0 := by
  obtain ⟨hw, _, _, _, hb⟩ := C24_update_weight d tr (.value v) ad r h
  obtain ⟨lo, h3, h4⟩ := hc
  simp only at hb
  rw [hb]
  unfold editUpdate
  simp only
  rw [estimateLogpdf_eq, h3]
  refine ⟨_, rfl, ?_, ?_⟩
  · obtain ⟨a, x, s⟩ := tr
    simp only at h4
    simp [h4]
  · simp only [hw]
    omega

/-! ## regenerate -/

/-- Selected: a fresh base sample under the new arguments; the weight follows the code's convention
    `new score − old score`; the backward request constrains the site to the old value. -/
theorem C24_regenerate_selected (d : Base K A V) (k : K) (tr : Tr A V) (ad : Argdiffs A)
    (r : EditResult A V) (h : editRegenerate d k tr true ad = .ok r) :
    d.sample k ad.primals = .ok r.tr.value ∧ Coherent d r.tr ∧ r.tr.args = ad.primals ∧
    r.w = r.tr.score - tr.score ∧ r.bwd = .value tr.value ∧ r.ret = .unknown := by
  unfold editRegenerate at h
  simp only [if_true] at h
  cases hr : randomWeighted d k ad.primals with
  | error e => rw [hr] at h; cases h
  | ok p =>
    obtain ⟨w, nv⟩ := p
    rw [hr] at h; cases h
    obtain ⟨h1, l, h2, h3⟩ := randomWeighted_ok.1 hr
    exact ⟨h1, ⟨l, h2, h3⟩, rfl, rfl, rfl, rfl⟩

example : ∃ r, editRegenerate (⟨fun k a => .ok (k + a), fun v a => .ok (.arr [v, a, 7])⟩ : Base Int Int Int)
    2 ⟨3, 5, 15⟩ true ⟨4, .unknown⟩ = .ok r ∧ r.tr.value = 6 ∧ r.w = 2 := ⟨_, rfl, rfl, by decide⟩

/-- Unselected, arguments tagged NoChange: the identical trace, weight 0, nothing to undo. -/
theorem C24_regenerate_unselected_nochange (d : Base K A V) (k : K) (tr : Tr A V) (p : A) :
    editRegenerate d k tr false ⟨p, .noChange⟩ = .ok ⟨tr, 0, .noChange, .none⟩ := rfl

/-- Unselected, arguments changed: the old value re-scored under the new arguments. -/
theorem C24_regenerate_unselected_changed (d : Base K A V) (k : K) (tr : Tr A V) (p : A)
    (r : EditResult A V) (h : editRegenerate d k tr false ⟨p, .unknown⟩ = .ok r) :
    r.tr.value = tr.value ∧ r.tr.args = p ∧ Coherent d r.tr ∧ r.w = r.tr.score - tr.score ∧
    r.bwd = .none ∧ r.ret = .noChange := by
  unfold editRegenerate at h
  simp only [Bool.false_eq_true, if_false, reduceCtorEq] at h
  rw [C24_assess] at h
  cases hl : d.lp tr.value p with
  | error e => rw [hl] at h; cases h
  | ok l =>
    rw [hl] at h; cases h
    exact ⟨rfl, rfl, ⟨l, hl, rfl⟩, rfl, rfl, rfl⟩

example : ∃ r, editRegenerate (⟨fun k a => .ok (k + a), fun v a => .ok (.arr [v, a, 7])⟩ : Base Int Int Int)
    2 ⟨3, 5, 15⟩ false ⟨4, .unknown⟩ = .ok r ∧ r.w = 1 := ⟨_, rfl, by decide⟩

/-- `edit_empty` is the unselected/changed arm of regenerate. -/
theorem C24_edit_empty (d : Base K A V) (k : K) (tr : Tr A V) (p : A) (t : Tag) :
    editEmpty d tr ⟨p, t⟩ = editRegenerate d k tr false ⟨p, .unknown⟩ := by
  unfold editEmpty editRegenerate
  simp

/-- Any other edit request is rejected; `Update` / `Regenerate` dispatch to the arms above. -/
theorem C24_edit_dispatch (d : Base K A V) (tr : Tr A V) (ad : Argdiffs A) (c : Constraint V) (k : K) (b : Bool) :
    edit d tr .other ad = .error .notSupported ∧
    edit d tr (.update c) ad = editUpdate d tr c ad ∧
    edit d tr (.regenerate k b) ad = editRegenerate d k tr b ad := ⟨rfl, rfl, rfl⟩

/-! ## project -/

theorem C24_project (tr : Tr A V) : project tr true = tr.score ∧ project tr false = 0 := ⟨rfl, rfl⟩

/-! ## keyword vs positional invocation -/

/-- For a base `def sample(key, p1…pn)` / `def logpdf(v, p1…pn)` with named parameters (defaults
    allowed): the argument package GenJAX builds for a keyword call, `(pos, kwargs)`, reaches the base
    bound exactly like the plain positional package of the values it binds to — for the sampler and for
    the log-density, hence for every GFI method (they only go through these two). -/
theorem C24_kwargs_equiv {K V : Type} (params : List (String × Option Int))
    (smp : K → List Int → Except Err V) (lpf : V → List Int → Except Err LP)
    (pos : List Int) (kw : Kw) (full : List Int) (hb : bind params pos kw = .ok full) :
    let D := exactDensity (ofParams params smp lpf)
    (∀ k, D.sample k [.tup pos, .dict kw] = D.sample k (full.map .int)) ∧
    (∀ v, D.lp v [.tup pos, .dict kw] = D.lp v (full.map .int)) ∧
    (∀ k, D.sample k [.tup pos, .dict kw] = smp k full) := by
  have hk : kwargle (full.map PyArg.int) = .ok (full.map PyArg.int, []) := by
    match full with
    | [] => rfl
    | [_] => rfl
    | [_, _] => rfl
    | _ :: _ :: _ :: _ => rfl
  have hf := bind_full hb
  have s1 : ∀ k, (exactDensity (ofParams params smp lpf)).sample k [.tup pos, .dict kw] = smp k full := by
    intro k
    simp only [exactDensity, ofParams, kwargle, bind_ok, asInts_map_int, hb]
  have s2 : ∀ k, (exactDensity (ofParams params smp lpf)).sample k (full.map .int) = smp k full := by
    intro k
    simp only [exactDensity, ofParams]
    rw [hk]
    simp only [bind_ok, asInts_map_int, hf]
  have l1 : ∀ v, (exactDensity (ofParams params smp lpf)).lp v [.tup pos, .dict kw] = lpf v full := by
    intro v
    simp only [exactDensity, ofParams, kwargle, bind_ok, asInts_map_int, hb]
  have l2 : ∀ v, (exactDensity (ofParams params smp lpf)).lp v (full.map .int) = lpf v full := by
    intro v
    simp only [exactDensity, ofParams]
    rw [hk]
    simp only [bind_ok, asInts_map_int, hf]
  exact ⟨fun k => by rw [s1, s2], fun v => by rw [l1, l2], s1⟩

example : bind [("a", none), ("b", some 0)] [2] [("b", 1)] = .ok [2, 1] := rfl
example : bind [("a", none), ("b", some 0)] [] [("b", 1), ("a", 2)] = .ok [2, 1] := rfl

/-- Consequently `simulate` through a keyword package yields the same value and score (the stored
    `args` differ: the trace keeps the package it was given). -/
theorem C24_kwargs_equiv_simulate {K V : Type} (params : List (String × Option Int))
    (smp : K → List Int → Except Err V) (lpf : V → List Int → Except Err LP)
    (pos : List Int) (kw : Kw) (full : List Int) (hb : bind params pos kw = .ok full) (k : K) :
    (simulate (exactDensity (ofParams params smp lpf)) k [.tup pos, .dict kw]).map (fun t => (t.value, t.score)) =
    (simulate (exactDensity (ofParams params smp lpf)) k (full.map .int)).map (fun t => (t.value, t.score)) := by
  obtain ⟨h1, h2, _⟩ := C24_kwargs_equiv params smp lpf pos kw full hb
  unfold simulate randomWeighted
  rw [h1 k]
  cases (exactDensity (ofParams params smp lpf)).sample k (full.map .int) with
  | error e => rfl
  | ok v =>
    simp only [bind_ok, estimateLogpdf_eq, h2 v]
    cases (exactDensity (ofParams params smp lpf)).lp v (full.map .int) <;> rfl

/-- Binding failures are `TypeError`s: a name given twice, a surplus positional. -/
theorem C24_kwargs_errors :
    bind [("a", none), ("b", some 0)] [2, 1] [("b", 1)] = .error .typeError ∧
    bind [("a", none), ("b", some 0)] [2, 1, 3] [] = .error .typeError ∧
    bind [("a", none), ("b", some 0)] [] [("b", 1)] = .error .typeError ∧
    bind [("a", none), ("b", some 0)] [2] [("c", 1)] = .error .typeError ∧
    kwargle [.int 2, .dict [("b", 1)]] = .error .typeError := ⟨rfl, rfl, rfl, rfl, rfl⟩

/-- `tfp_distribution`: `sample_shape` never reaches the distribution constructor nor `log_prob`. -/
theorem C24_tfp_logpdf_ignores_sample_shape {K V : Type}
    (dist : List PyArg → Kw → Except Err (TfpDist K V)) (v : V) (xs : List PyArg) (kw : Kw) (s : Int) :
    (tfpDistribution dist).lp v xs (("sample_shape", s) :: kw) = (tfpDistribution dist).lp v xs kw := by
  simp [tfpDistribution, List.filter]

/-! ## reduction of the full statement to the oracle equation -/

/-- PARTIAL: if the wrapper's base has the oracle's sampler and log-density (the part only a
    numerical comparison against TFP can establish) and the oracle samples inside the support,
    then full C24 holds for that wrapper.  Decidable-hypothesis form is impossible here (the
    hypothesis is about real-valued TFP functions); the harness sweep checks it pointwise. -/
theorem C24_partial (impl oracle : Base K A V) (support : A → V → Prop)
    (hs : ∀ k a, impl.sample k a = oracle.sample k a) (hl : ∀ v a, impl.lp v a = oracle.lp v a)
    (hsup : ∀ k a v, oracle.sample k a = .ok v → support a v) :
    C24_full impl oracle support := by
  refine ⟨?_, ?_, ?_, ?_⟩
  · intro k a tr h
    obtain ⟨h1, ⟨l, h2, h3⟩, _⟩ := (C24_simulate_score impl k a tr).1 h
    exact ⟨⟨l, by rw [← hl]; exact h2, h3⟩, hsup k a _ (by rw [← hs]; exact h1)⟩
  · intro v a s h
    rw [C24_assess] at h
    cases h' : impl.lp v a with
    | error e => rw [h'] at h; cases h
    | ok l => rw [h'] at h; cases h; exact ⟨l, by rw [← hl]; exact h', rfl⟩
  · intro k v a tr w h
    rw [C24_importance_value] at h
    cases h' : impl.lp v a with
    | error e => rw [h'] at h; cases h
    | ok l => rw [h'] at h; cases h; exact ⟨l, by rw [← hl]; exact h', rfl, rfl, rfl⟩
  · intro tr v ad r hc h
    obtain ⟨ln, lo, h1, h2, h3⟩ := C24_update_weight_coherent impl tr (.value v) ad r hc h
    exact ⟨ln, lo, by rw [← hl]; exact h1, by rw [← hl]; exact h2, h3⟩

example (d : Base K A V) : C24_full d d (fun _ _ => True) :=
  C24_partial d d _ (fun _ _ => rfl) (fun _ _ => rfl) (fun _ _ _ _ => trivial)

/-- Non-vacuity of `C24_partial`'s hypotheses (a base is its own oracle) and sensitivity of
    `C24_full`: a wrapper whose log-density differs from the oracle's (here: mean instead of sum,
    or swapped parameters) does NOT satisfy it. -/
theorem C24_full_sensitive :
    ¬ C24_full (⟨fun _ _ => .ok 1, fun v a => .ok (.scalar (v + a))⟩ : Base Unit Int Int)
               ⟨fun _ _ => .ok 1, fun v a => .ok (.arr [v, a, 7])⟩ (fun _ _ => True) := by
  intro h
  obtain ⟨_, h2, _⟩ := h
  obtain ⟨l, h3, h4⟩ := h2 1 1 (2, 1) rfl
  cases h3
  simp [LP.total] at h4

end GenjaxVerif.Dist
