import GenjaxVerif.Lemmas.Sel
/-!
# C18 — Selections form a Boolean algebra over static addresses

Statements only (model functions are defined in `Model/Sel.lean`).  Every theorem is for
*all* selection terms and *all* addresses of any length — the bounded-exhaustive check in
the harness only ties the model to the Python classes.
-/
namespace GenjaxVerif.Sel

/-- Central theorem: membership computed the way the implementation computes it
    (iterated `get_subselection`, re-simplifying at every step, then `check`) equals the
    reference meaning of the term, for every raw term and every address. -/
theorem C18_mem_eq_den (s : Sel) (p : List String) : mem s p = den s p := by
  induction p generalizing s with
  | nil => exact check_eq_den s
  | cons x q ih => rw [← den_sub]; exact ih (sub s x)

/-- `|` is pointwise disjunction (through the simplifying constructor `OrSel.build`). -/
theorem C18_mem_or (a b : Sel) (p : List String) : mem (mkOr a b) p = (mem a p || mem b p) := by
  simp [C18_mem_eq_den, den_mkOr]

/-- `&` is pointwise conjunction (through `AndSel.build`). -/
theorem C18_mem_and (a b : Sel) (p : List String) : mem (mkAnd a b) p = (mem a p && mem b p) := by
  simp [C18_mem_eq_den, den_mkAnd]

/-- `~` is pointwise negation (through `ComplementSel.build`). -/
theorem C18_mem_compl (s : Sel) (p : List String) : mem (mkCompl s) p = !mem s p := by
  simp [C18_mem_eq_den, den_mkCompl]

theorem C18_mem_all (p : List String) : mem all p = true := by simp [C18_mem_eq_den, den]
theorem C18_mem_none (p : List String) : mem none p = false := by simp [C18_mem_eq_den, den]
theorem C18_mem_leaf (p : List String) : mem leaf p = p.isEmpty := by simp [C18_mem_eq_den, den]

/-- Sub-selection commutes with membership: `S(a)[b] == S[a, b]`. -/
theorem C18_subs_mem (s : Sel) (a b : List String) : mem (subs s a) b = mem s (a ++ b) := by
  simp [mem, subs_append]

/-- The simplifying constructors never change which addresses are selected. -/
theorem C18_simplifiers_sound (a b : Sel) (x : XAddr) (p : List String) :
    mem (mkOr a b) p = mem (or a b) p ∧ mem (mkAnd a b) p = mem (and a b) p ∧
    mem (mkCompl a) p = mem (compl a) p ∧ mem (mkStat a x) p = mem (stat a x) p := by
  simp [C18_mem_eq_den, den_mkOr, den_mkAnd, den_mkCompl, den_mkStat, den]

/-- `extend`: the prefix must match (wildcards match anything), the rest is judged by `s`. -/
theorem C18_mem_extend (s : Sel) (addrs : List XAddr) (p : List String) :
    mem (extend s addrs) p = (matchPrefix addrs p && mem s (p.drop addrs.length)) := by
  induction addrs generalizing p with
  | nil => simp [extend, matchPrefix]
  | cons a as ih =>
    have h : extend s (a :: as) = mkStat (extend s as) a := rfl
    rw [h, C18_mem_eq_den, den_mkStat]
    cases p with
    | nil => simp [den, matchPrefix]
    | cons x q =>
      simp only [den, matchPrefix, List.length_cons, List.drop_succ_cons]
      rw [← C18_mem_eq_den, ih q, Bool.and_assoc]

/-- `Selection.at[a1, …, an]` (n ≥ 1) selects exactly the addresses having that prefix;
    `Selection.at[()]` is `leaf`. -/
theorem C18_mem_at (addrs : List XAddr) (p : List String) :
    mem (atAddr addrs) p = if addrs.isEmpty then p.isEmpty else matchPrefix addrs p := by
  unfold atAddr
  split
  · exact C18_mem_leaf p
  · rw [C18_mem_extend]; simp [C18_mem_all]

/-! Boolean-algebra laws, pointwise at every address (corollaries). -/

theorem C18_de_morgan (a b : Sel) (p : List String) :
    mem (mkCompl (mkOr a b)) p = mem (mkAnd (mkCompl a) (mkCompl b)) p ∧
    mem (mkCompl (mkAnd a b)) p = mem (mkOr (mkCompl a) (mkCompl b)) p := by
  simp [C18_mem_compl, C18_mem_or, C18_mem_and]

theorem C18_compl_involutive (s : Sel) (p : List String) : mem (mkCompl (mkCompl s)) p = mem s p := by
  simp [C18_mem_compl]

theorem C18_excluded_middle (s : Sel) (p : List String) :
    mem (mkOr s (mkCompl s)) p = true ∧ mem (mkAnd s (mkCompl s)) p = false := by
  simp [C18_mem_compl, C18_mem_or, C18_mem_and]

theorem C18_distrib (a b c : Sel) (p : List String) :
    mem (mkAnd a (mkOr b c)) p = mem (mkOr (mkAnd a b) (mkAnd a c)) p := by
  simp [C18_mem_or, C18_mem_and, Bool.and_or_distrib_left]

theorem C18_comm_assoc_idem (a b c : Sel) (p : List String) :
    mem (mkOr a b) p = mem (mkOr b a) p ∧ mem (mkAnd a b) p = mem (mkAnd b a) p ∧
    mem (mkOr (mkOr a b) c) p = mem (mkOr a (mkOr b c)) p ∧
    mem (mkAnd (mkAnd a b) c) p = mem (mkAnd a (mkAnd b c)) p ∧
    mem (mkOr a a) p = mem a p ∧ mem (mkAnd a a) p = mem a p := by
  simp [C18_mem_or, C18_mem_and, Bool.or_comm, Bool.and_comm, Bool.or_assoc, Bool.and_assoc]

/-! Non-vacuity / sanity: concrete evaluations of the model (these are tests, labelled as such). -/
example : mem (mkOr (atAddr [some "x"]) (mkCompl (atAddr [Option.none, some "y"]))) ["z", "y"] = false := by decide
example : mem (mkAnd (atAddr [some "x"]) (mkCompl (atAddr [some "x", some "y"]))) ["x", "z"] = true := by decide
example : mkAnd (atAddr [some "x"]) (atAddr [some "x"]) = atAddr [some "x"] := by decide

end GenjaxVerif.Sel
