import GenjaxVerif.Lemmas.IR
/-!
# C36 — the stateful interpreter is transparent for unhandled primitives

Statements about `evalStateful` (`StatefulInterpreter.eval_jaxpr_stateful`) for ALL jaxprs,
ALL primitive semantics `sem`, all constants and arguments.  Control-flow primitives,
literals, closed-over constants (constvars), DropVars and multi-result primitives are
covered because nothing is assumed about the program or about `sem`; results are equal as
`Except` values, so the same exception is raised in the same situations.
-/
namespace GenjaxVerif.IR

/-- General form: under any handler the stateful interpreter is ordinary evaluation with the
    handled primitives' meaning replaced by `dispatch`. -/
theorem C36_stateful_eq_plain_override (sem : Sem) (h : Handler Val) (j : Jaxpr) (consts args : List Val) :
    evalStateful sem h j consts args = evalPlain (h.override sem) j consts args :=
  evalStateful_eq_plain_override sem h j consts args

/-- The property: with a handler that handles no primitive, the stateful interpreter returns
    exactly what ordinary evaluation returns. -/
theorem C36_stateful_eq_plain (sem : Sem) (h : Handler Val) (hno : ∀ p, h.handles p = false) (j : Jaxpr)
    (consts args : List Val) : evalStateful sem h j consts args = evalPlain sem j consts args := by
  rw [evalStateful_eq_plain_override, Handler.override_of_noHandle sem h hno]

/-- `dispatch` of a handler that handles nothing is never consulted: any two such handlers
    give the same result. -/
theorem C36_dispatch_irrelevant (sem : Sem) (h h' : Handler Val) (hno : ∀ p, h.handles p = false)
    (hno' : ∀ p, h'.handles p = false) (j : Jaxpr) (consts args : List Val) :
    evalStateful sem h j consts args = evalStateful sem h' j consts args := by
  rw [C36_stateful_eq_plain sem h hno, C36_stateful_eq_plain sem h' hno']

/-- Initial-style primitives evaluate their wrapped jaxpr.  If the primitive `p` is
    implemented by `initial_style_bind`'s `_impl` (so `bind` = `initialStyleImpl`, over any
    inner semantics `sem'`), then the interpreter step for an equation
    `outs = p[impl=J, num_consts=k] ins` reads the operands, evaluates `J` by ordinary
    evaluation on (first `k` operands as consts, the rest as arguments) and writes the results. -/
theorem C36_initial_style_step (sem sem' : Sem) (h : Handler Val) (hno : ∀ p, h.handles p = false)
    (p : String) (hsem : ∀ ps vs, sem p ps vs = initialStyleImpl sem' ps vs)
    (J : Jaxpr) (cs : List Val) (k : Nat) (rest : Params) (ins : List Atom) (outs : List Binder) (e : Env Val) :
    stepStateful sem h e (.mk p true (("impl", .closed J cs) :: ("num_consts", .int k) :: rest) ins outs) =
      (do let vs ← e.readAll id ins
          let r ← evalPlain sem' J (vs.take k) (vs.drop k)
          e.writeMany outs r) := by
  simp only [stepStateful, Eqn.ins, Eqn.prim, Eqn.params, Eqn.multi, Eqn.outs, hno, hsem, initialStyleImpl,
    Params.find, Bool.false_eq_true, if_false]
  cases e.readAll id ins with
  | error x => rfl
  | ok vs =>
    simp only [Bind.bind, Except.bind]
    have hk : (k : Int).toNat = k := by simp
    have hn1 : ("impl" = "num_consts") = False := by decide
    simp only [if_true, hn1, if_false, hk]
    cases evalPlain sem' J (vs.take k) (vs.drop k) with
    | error x => rfl
    | ok r => simp [wrapOuts]

/-- Whole-program form: through the stateful interpreter (no-op handler) a program calling
    an initial-style primitive computes what ordinary evaluation computes when the
    primitive's `bind` is its wrapped jaxpr — this is `C36_stateful_eq_plain` read at such
    a `sem`. -/
theorem C36_initial_style_program (sem sem' : Sem) (h : Handler Val) (hno : ∀ p, h.handles p = false)
    (p : String) (hsem : ∀ ps vs, sem p ps vs = initialStyleImpl sem' ps vs) (j : Jaxpr) (consts args : List Val) :
    evalStateful sem h j consts args = evalPlain sem j consts args ∧
    ∀ (J : Jaxpr) (cs : List Val) (k : Nat) (vs : List Val),
      sem p [("impl", .closed J cs), ("num_consts", .int k)] vs =
        (evalPlain sem' J (vs.take k) (vs.drop k)).map PrimOut.many := by
  refine ⟨C36_stateful_eq_plain sem h hno j consts args, ?_⟩
  intro J cs k vs
  have hn1 : ("impl" = "num_consts") = False := by decide
  rw [hsem]
  simp only [initialStyleImpl, Params.find, if_true, hn1, if_false, Int.toNat_natCast]
  cases evalPlain sem' J (vs.take k) (vs.drop k) <;> rfl

/-- End to end: the program `lambda *args: initial_style_bind(p)(g)(*args)` (jaxpr `isCall`),
    run by the stateful interpreter with a handler that handles nothing, returns what
    ordinary evaluation of the wrapped jaxpr `J` returns on (consts, args) — or fails with
    `arity` if `J` yields a different number of results than the equation binds. -/
theorem C36_initial_style_call (sem sem' : Sem) (h : Handler Val) (hno : ∀ p, h.handles p = false)
    (p : String) (hsem : ∀ ps vs, sem p ps vs = initialStyleImpl sem' ps vs)
    (J : Jaxpr) (cv iv ov : List Nat) (consts args : List Val)
    (hnd : (cv ++ iv).Nodup) (hov : ov.Nodup) (hc : cv.length = consts.length) (hi : iv.length = args.length) :
    evalStateful sem h (isCall p J cv iv ov) consts args =
      (evalPlain sem' J consts args >>= fun r => if ov.length = r.length then .ok r else .error .arity) := by
  rw [C36_stateful_eq_plain sem h hno]
  have hlen : ((cv ++ iv).map Binder.var).length = (consts ++ args).length := by simp [hc, hi]
  obtain ⟨ρ2, hρ2⟩ := FEnv.bindAll_ok_of_length (ρ := FEnv.empty) _ _ hlen
  have hb : (FEnv.empty.bindAll (cv.map .var) consts >>= fun ρ1 => ρ1.bindAll (iv.map .var) args) = .ok ρ2 := by
    rw [← FEnv.bindAll_append _ _ _ _ (by simp [hc]), ← List.map_append]; exact hρ2
  have hat : ρ2.atoms ((cv ++ iv).map .var) = .ok (consts ++ args) := (FEnv.bindAll_atoms _ _ hnd hρ2).1
  have hn1 : ("impl" = "num_consts") = False := by decide
  have hsemv : sem p [("impl", .closed J []), ("num_consts", .int cv.length)] (consts ++ args) =
      (match evalPlain sem' J consts args with | .ok r => .ok (.many r) | .error x => .error x) := by
    rw [hsem]
    simp only [initialStyleImpl, Params.find, if_true, hn1, if_false, Int.toNat_natCast, hc,
      List.take_left', List.drop_left']
    cases evalPlain sem' J consts args <;> rfl
  generalize evalPlain sem' J consts args = E at hsemv ⊢
  unfold evalPlain
  simp only [isCall, Jaxpr.constvars, Jaxpr.invars, Jaxpr.eqns, Jaxpr.outvars, ← bind_assoc, hb]
  simp only [bind_assoc, evalEqns, Eqn.ins, Eqn.prim, Eqn.params, Eqn.multi, Eqn.outs]
  simp only [Bind.bind, Except.bind, hat, hsemv]
  cases E with
  | error x => rfl
  | ok r =>
    simp only [wrapOuts, if_true]
    by_cases hl : ov.length = r.length
    · obtain ⟨ρ3, hρ3⟩ := FEnv.bindAll_ok_of_length (ρ := ρ2) (ov.map .var) r (by simpa using hl)
      simp only [hρ3, hl, if_true]
      exact (FEnv.bindAll_atoms _ _ hov hρ3).1
    · have := FEnv.bindAll_arity (ρ := ρ2) (bs := ov.map .var) (vs := r) (by simpa using hl)
      simp [this, hl]

/-! ## Non-vacuity -/

private def sc (i : Int) : Val := ⟨.i32, [], [i]⟩

private def baseSem : Sem := fun p _ vs =>
  match p, vs with
  | "add", [a, b] => .ok (.one (sc (a.data.headD 0 + b.data.headD 0)))
  | "dup", [a] => .ok (.many [a, a])
  | _, _ => .error (.prim "unknown")

/-- `sem` for a world with one initial-style primitive `"is"` over `baseSem`. -/
private def isSem : Sem := fun p ps vs => if p = "is" then initialStyleImpl baseSem ps vs else baseSem p ps vs

private def inner : Jaxpr := .mk [7] [0] [.mk "add" false [] [.var 0, .var 7] [.var 1]] [.var 1, .lit (sc 3)]

private def outer : Jaxpr := .mk [5] [0]
  [ .mk "is" true [("impl", .closed inner []), ("num_consts", .int 1)] [.var 5, .var 0] [.var 1, .drop],
    .mk "dup" true [] [.var 1] [.drop, .var 2] ]
  [.var 2, .var 2, .lit (sc 0), .var 0]

example : ∀ p, (Handler.noop : Handler Val).handles p = false := fun _ => rfl
example : ∀ ps vs, isSem "is" ps vs = initialStyleImpl baseSem ps vs := fun _ _ => rfl
example : evalStateful isSem Handler.noop outer [sc 10] [sc 4] = .ok [sc 14, sc 14, sc 0, sc 4] := rfl
example : evalPlain isSem outer [sc 10] [sc 4] = .ok [sc 14, sc 14, sc 0, sc 4] := rfl
example : evalPlain baseSem inner [sc 10] [sc 4] = .ok [sc 14, sc 3] := rfl
example : evalStateful isSem Handler.noop (isCall "is" inner [20] [21] [30, 31]) [sc 10] [sc 4] = .ok [sc 14, sc 3] := rfl
example : ([20] ++ [21] : List Nat).Nodup ∧ ([30, 31] : List Nat).Nodup := by decide
/-- error cases are real -/
example : evalStateful isSem Handler.noop (isCall "is" inner [20] [21] [30]) [sc 10] [sc 4] = .error .arity := rfl
example : evalStateful isSem Handler.noop outer [] [sc 4] = .error .arity := rfl
example : evalStateful baseSem Handler.noop (.mk [] [] [] [.var 1]) [] [] = .error (.unbound 1) := rfl
/-- a handler that does handle something changes the result (the theorem's hypothesis matters) -/
example : evalStateful isSem ⟨fun p => p = "dup", fun _ _ vs => .ok (.many (vs ++ [sc 99]))⟩ outer [sc 10] [sc 4]
    = .ok [sc 99, sc 99, sc 0, sc 4] := rfl

end GenjaxVerif.IR
