import GenjaxVerif.Lemmas.GFIUpdate
import GenjaxVerif.Model.Derived
/-! IndexRequest edits of vector traces. -/
namespace GenjaxVerif.GFI
open GenjaxVerif

theorem scoreL_set : ∀ (ts : List Trace) (k : Nat) (t : Trace) (hk : k < ts.length),
    Trace.scoreL (ts.set k t) = Trace.scoreL ts - ts[k].score + t.score
  | [], _, _, hk => by simp at hk
  | x :: xs, 0, t, _ => by simp [Trace.scoreL]; omega
  | x :: xs, k + 1, t, hk => by
    simp only [List.set_cons_succ, Trace.scoreL, List.getElem_cons_succ]
    rw [scoreL_set xs k t (by simpa using hk)]
    omega

theorem nthElem_ok {elems : List Trace} {k : Nat} {t : Trace} (h : nthElem elems k = .ok t) :
    ∃ hk : k < elems.length, elems[k] = t := by
  unfold nthElem at h
  cases he : elems[k]? with
  | none => simp [he] at h
  | some x =>
    simp [he] at h; subst h
    obtain ⟨hk, hx⟩ := List.getElem?_eq_some_iff.1 he
    exact ⟨hk, hx⟩

/-- `Vmap.edit_index`: only element `idx` is edited (by the inner function's own edit, on that
    element's slice of the arguments), every other element is kept as it is, and the weight is the
    element's weight. -/
theorem vmap_index_edit (ds : DistSem) (m : Mode) (p : Prog) (axes : List Ax) (key : KeyPath)
    (args ret : Val) (elems : List Trace) (idx : Nat) (c : CMap) (sel : Sel) (r : Res)
    (h : editIndex ds m (.vmap p axes) key (.vec args ret elems) idx c sel = .ok r) :
    ∃ (hk : idx < elems.length) (as ea : List Val) (r' : Res), argList args = .ok as ∧ sliceArgs axes as idx = .ok ea ∧
      run ds m p { c, sel, old := some elems[idx], key, args := .tup ea } = .ok r' ∧
      r.tr = .vec args (.arr ((elems.set idx r'.tr).map (·.ret))) (elems.set idx r'.tr) ∧
      r.w = r'.w ∧ r.bwd = CMap.pre [.i idx] r'.bwd := by
  simp only [editIndex, bind_ok, pure_ok] at h
  obtain ⟨as, has, ea, hea, old, hold, r', hr', rfl⟩ := h
  obtain ⟨hk, rfl⟩ := nthElem_ok hold
  exact ⟨hk, as, ea, r', has, hea, hr', rfl, rfl, rfl⟩

/-- The weight of an index Update on a vmap trace is new score − old score of the whole trace. -/
theorem vmap_index_update_weight (ds : DistSem) (p : Prog) (axes : List Ax) (key : KeyPath)
    (args ret : Val) (elems : List Trace) (idx : Nat) (c : CMap) (sel : Sel) (r : Res)
    (hs : ∀ t ∈ elems, Shape p t) (hsafe : Safe false p)
    (h : editIndex ds .upd (.vmap p axes) key (.vec args ret elems) idx c sel = .ok r) :
    r.w = r.tr.score - (Trace.vec args ret elems).score := by
  obtain ⟨hk, as, ea, r', _, _, hr', htr, hw, _⟩ := vmap_index_edit ds .upd p axes key args ret elems idx c sel r h
  have := upd_w ds p _ r' elems[idx] hr' rfl (hs _ (List.getElem_mem hk)) hsafe
  rw [htr, hw, this]
  simp only [Trace.score, scoreL_set elems idx r'.tr hk]
  omega

end GenjaxVerif.GFI

namespace GenjaxVerif.GFI
open GenjaxVerif

/-- `Scan.edit_index` (as repaired): iteration `idx` is edited by the kernel's own edit with its
    recorded arguments; if a later iteration exists, iteration `idx + 1` is re-scored with the new
    carry and must return what it returned before, and the final carry is the OLD final carry;
    if `idx` is the last iteration the final carry is the edited iteration's carry; the stacked
    outputs change only at `idx`; the weight is the sum of the two edits' weights. -/
theorem scan_index_edit (ds : DistSem) (m : Mode) (p : Prog) (len : Option Nat) (key : KeyPath)
    (args oldFin : Val) (ys : List Val) (elems : List Trace) (idx : Nat) (c : CMap) (sel : Sel) (r : Res)
    (h : editIndex ds m (.scan p len) key (.vec args (.tup [oldFin, .arr ys]) elems) idx c sel = .ok r) :
    ∃ (hk : idx < elems.length) (r' : Res) (carry' y' : Val),
      run ds m p { c, sel, old := some elems[idx], key, args := elems[idx].args } = .ok r' ∧
      r'.tr.ret = .tup [carry', y'] ∧ r.bwd = CMap.pre [.i idx] r'.bwd ∧
      ((h1 : idx + 1 < elems.length) → ∃ (rn : Res) (x carryOld : Val), elems[idx + 1].args = .tup [carryOld, x] ∧
          run ds .upd p { c := [], sel := .none, old := some elems[idx + 1], key, args := .tup [carry', x] } = .ok rn ∧
          rn.tr.ret.beq elems[idx + 1].ret = true ∧
          r.tr = .vec args (.tup [oldFin, .arr (ys.set idx y')]) ((elems.set idx r'.tr).set (idx + 1) rn.tr) ∧
          r.w = r'.w + rn.w) ∧
      (¬ idx + 1 < elems.length →
          r.tr = .vec args (.tup [carry', .arr (ys.set idx y')]) (elems.set idx r'.tr) ∧ r.w = r'.w) := by
  simp only [editIndex, bind_ok] at h
  obtain ⟨old, hold, r', hr', h2⟩ := h
  obtain ⟨hk, rfl⟩ := nthElem_ok hold
  split at h2
  · rename_i carry' y' hret
    simp only [bind_ok, pure_ok] at h2
    obtain ⟨_, hp, h3⟩ := h2
    subst hp
    dsimp only at h3
    refine ⟨hk, r', carry', y', hr', hret, ?_, ?_, ?_⟩
    · by_cases h1 : idx + 1 < elems.length
      · simp only [h1, if_true, bind_ok] at h3
        obtain ⟨next, _, h4⟩ := h3
        split at h4
        · simp only [bind_ok, pure_ok] at h4
          obtain ⟨_, _, rn, _, h5⟩ := h4
          split at h5
          · simp [map_ok, bind_ok] at h5
          · simp at h5; subst h5; rfl
        · simp [bind_ok] at h4
      · simp only [h1, if_false] at h3
        simp at h3; subst h3; rfl
    · intro h1
      simp only [h1, if_true, bind_ok] at h3
      obtain ⟨next, hnext, h4⟩ := h3
      obtain ⟨_, rfl⟩ := nthElem_ok hnext
      split at h4
      · rename_i carryOld x' hargs
        simp only [bind_ok, pure_ok] at h4
        obtain ⟨x, hx, rn, hrn, h5⟩ := h4
        subst hx
        split at h5
        · simp [map_ok, bind_ok] at h5
        · rename_i hbeq
          simp at h5; subst h5
          exact ⟨rn, x', carryOld, hargs, hrn, by simpa using hbeq, rfl, rfl⟩
      · simp [bind_ok] at h4
    · intro h1
      simp only [h1, if_false] at h3
      simp at h3; subst h3
      exact ⟨rfl, rfl⟩
  · simp [bind_ok] at h2

end GenjaxVerif.GFI
