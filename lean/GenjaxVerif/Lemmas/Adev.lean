import GenjaxVerif.Model.Adev
import Mathlib.Tactic.Ring
import Mathlib.Tactic.FieldSimp
import Mathlib.Tactic.Linarith
/-!
# Helper lemmas for the ADEV model

* componentwise `simp` lemmas for `Dual` arithmetic;
* `expect` over `bern`;
* the primal projection of environments and the two logical-relation lemmas behind
  `C29_primal_prog` (dual evaluation projects to value evaluation) and `C29_tangent_linear`
  (the output tangent is the input tangent times the output tangent at input tangent 1).
-/
namespace GenjaxVerif.Adev

namespace Dual
@[simp] theorem add_p (a b : Dual) : (a + b).p = a.p + b.p := rfl
@[simp] theorem add_t (a b : Dual) : (a + b).t = a.t + b.t := rfl
@[simp] theorem sub_p (a b : Dual) : (a - b).p = a.p - b.p := rfl
@[simp] theorem sub_t (a b : Dual) : (a - b).t = a.t - b.t := rfl
@[simp] theorem mul_p (a b : Dual) : (a * b).p = a.p * b.p := rfl
@[simp] theorem mul_t (a b : Dual) : (a * b).t = a.t * b.p + a.p * b.t := rfl
@[simp] theorem neg_p (a : Dual) : (-a).p = -a.p := rfl
@[simp] theorem neg_t (a : Dual) : (-a).t = -a.t := rfl
@[simp] theorem div_p (a b : Dual) : (a / b).p = a.p / b.p := rfl
@[simp] theorem div_t (a b : Dual) : (a / b).t = a.t / b.p - a.p * b.t / (b.p * b.p) := rfl
@[simp] theorem const_p (c : Rat) : (const c).p = c := rfl
@[simp] theorem const_t (c : Rat) : (const c).t = 0 := rfl

theorem ext' {a b : Dual} (hp : a.p = b.p) (ht : a.t = b.t) : a = b := by
  cases a; cases b; simp_all
end Dual

@[simp] theorem expect_bern (p : Rat) (f : Bool → Rat) :
    expect (bern p) f = p * f true + (1 - p) * f false := by
  simp [expect, bern]

theorem expect_nil {α : Type} (f : α → Rat) : expect ([] : List (α × Rat)) f = 0 := by
  simp [expect]

theorem expect_cons {α : Type} (x : α) (w : Rat) (d : List (α × Rat)) (f : α → Rat) :
    expect ((x, w) :: d) f = w * f x + expect d f := by
  simp [expect]

/-- Expectation is linear. -/
theorem expect_add {α : Type} (d : List (α × Rat)) (f g : α → Rat) :
    expect d (fun x => f x + g x) = expect d f + expect d g := by
  induction d with
  | nil => simp [expect]
  | cons xw d ih =>
    obtain ⟨x, w⟩ := xw
    simp only [expect_cons, ih]; ring

theorem expect_smul {α : Type} (d : List (α × Rat)) (c : Rat) (f : α → Rat) :
    expect d (fun x => c * f x) = c * expect d f := by
  induction d with
  | nil => simp [expect]
  | cons xw d ih =>
    obtain ⟨x, w⟩ := xw
    simp only [expect_cons, ih]; ring

theorem expect_const {α : Type} (d : List (α × Rat)) (c : Rat) :
    expect d (fun _ => c) = c * expect d (fun _ => 1) := by
  induction d with
  | nil => simp [expect]
  | cons xw d ih =>
    obtain ⟨x, w⟩ := xw
    simp only [expect_cons, ih]; ring

/-! ## Primal projection -/

def Env.primal (e : Env) : VEnv := ⟨e.th.p, e.bs, e.rs.map (·.p)⟩

def Val.primal : Val → VVal
  | .b x => .b x
  | .r x => .r x.p
  | .none => .none

theorem Env.primal_push (e : Env) (v : Val) : (e.push v).primal = e.primal.push v.primal := by
  cases v <;> simp [Env.push, Env.pushB, Env.pushR, Env.primal, VEnv.push, Val.primal]

/-- `a` (a dual result or an error) projects to `b` (a value or the same error). -/
def Proj (a : Except Err Dual) (b : Except Err Rat) : Prop := a.map (·.p) = b

theorem Proj.ok {d : Dual} : Proj (.ok d) (.ok d.p) := rfl
theorem Proj.err {e : Err} : Proj (.error e) (.error e) := rfl

theorem proj_bind {a : Except Err Dual} {b : Except Err Rat}
    {f : Dual → Except Err Dual} {g : Rat → Except Err Rat}
    (h : Proj a b) (hf : ∀ d, Proj (f d) (g d.p)) : Proj (a >>= f) (b >>= g) := by
  cases a with
  | error e => cases h; rfl
  | ok d => cases h; exact hf d

theorem proj_post {a : Except Err Dual} {b : Except Err Rat} (f : Dual → Dual)
    (h : Proj a b) (hf : ∀ d, (f d).p = d.p) : Proj (a >>= fun d => pure (f d)) b := by
  cases a with
  | error e => cases h; rfl
  | ok d => cases h; simp [Proj, Except.map, bind, Except.bind, pure, Except.pure, hf]

theorem proj_optE {α : Type} (e : Err) (o : Option α)
    {f : α → Except Err Dual} {g : α → Except Err Rat}
    (hf : ∀ a, Proj (f a) (g a)) : Proj (optE e o >>= f) (optE e o >>= g) := by
  cases o with
  | none => rfl
  | some a => exact hf a

theorem evalExpr_proj (ln : Rat → Option Rat) (env : Env) (e : Expr) :
    Proj (evalExpr ln env e) (valExpr ln env.primal e) := by
  induction e with
  | c r => rfl
  | th => rfl
  | rv i =>
    simp only [evalExpr, valExpr, Env.primal, List.getElem?_map]
    cases env.rs[i]? <;> rfl
  | add a b iha ihb =>
    simp only [evalExpr, valExpr]
    exact proj_bind iha (fun d => proj_bind ihb (fun d' => rfl))
  | sub a b iha ihb =>
    simp only [evalExpr, valExpr]
    exact proj_bind iha (fun d => proj_bind ihb (fun d' => rfl))
  | mul a b iha ihb =>
    simp only [evalExpr, valExpr]
    exact proj_bind iha (fun d => proj_bind ihb (fun d' => rfl))
  | div a b iha ihb =>
    simp only [evalExpr, valExpr]
    exact proj_bind iha (fun d => proj_bind ihb (fun d' => rfl))
  | neg a iha =>
    simp only [evalExpr, valExpr]
    exact proj_bind iha (fun d => rfl)
  | log a iha =>
    simp only [evalExpr, valExpr]
    refine proj_bind iha (fun d => ?_)
    cases ln d.p <;> rfl
  | ite i a b iha ihb =>
    simp only [evalExpr, valExpr]
    have : env.primal.bs = env.bs := rfl
    rw [this]
    refine proj_optE _ _ (fun c => ?_)
    refine proj_bind iha (fun d => proj_bind ihb (fun d' => ?_))
    cases c <;> rfl

/-- Argument lists: dual evaluation projects to value evaluation. -/
theorem evalArgs_proj (ln : Rat → Option Rat) (env : Env) (es : List Expr) :
    (evalArgs ln env es).map (fun ds => ds.map (·.p)) = valArgs ln env.primal es := by
  induction es with
  | nil => rfl
  | cons e es ih =>
    simp only [evalArgs, valArgs]
    have h := evalExpr_proj ln env e
    unfold Proj at h
    cases he : evalExpr ln env e with
    | error x => rw [he] at h; rw [← h]; rfl
    | ok d =>
      rw [he] at h; rw [← h, ← ih]
      cases evalArgs ln env es <;> rfl


/-! ## Sampling sites -/

theorem bind_ok {α β : Type} (a : α) (f : α → Except Err β) : (Except.ok a >>= f) = f a := rfl
theorem bind_err {α β : Type} (e : Err) (f : α → Except Err β) : (Except.error e >>= f) = .error e := rfl

/-- Shifting the continuation by a constant shifts a site's value by that constant
    (every site's value is an average, with total weight 1, of continuation values). -/
theorem primVal_shift (nz : Noise) (prim : Prim) :
    ∀ (args : List Rat) (key : Key) (kv : VVal → Key → Except Err Rat) (c : Rat),
      primVal nz prim args key (fun v k' => do pure ((← kv v k') - c))
        = (do pure ((← primVal nz prim args key kv) - c)) := by
  induction prim with
  | baseline inner ih =>
    intro args key kv c
    cases args with
    | nil => rfl
    | cons b args => simp only [primVal]; exact ih args key kv c
  | flipEnum =>
    intro args key kv c
    match args with
    | [] => rfl
    | [p] =>
      simp only [primVal]
      cases kv (.b true) key with
      | error e => rfl
      | ok a =>
        cases kv (.b false) key with
        | error e => rfl
        | ok b =>
          simp only [bind_ok, pure, Except.pure]
          congr 1; ring
    | _ :: _ :: _ => rfl
  | flipReinforce =>
    intro args key kv c
    match args with
    | [] => rfl
    | [p] =>
      simp only [primVal]
      cases nz.u (key ++ [1]) <;> rfl
    | _ :: _ :: _ => rfl
  | normalReparam =>
    intro args key kv c
    match args with
    | [] => rfl
    | [_] => rfl
    | [mu, sigma] =>
      simp only [primVal]
      cases nz.eps (key ++ [1]) <;> rfl
    | _ :: _ :: _ :: _ => rfl
  | normalReinforce =>
    intro args key kv c
    match args with
    | [] => rfl
    | [_] => rfl
    | [mu, sigma] =>
      simp only [primVal]
      cases nz.eps (key ++ [1]) <;> rfl
    | _ :: _ :: _ :: _ => rfl
  | flipMvd => intro args key kv c; rfl
  | flipEnumParallel => intro args key kv c; rfl
  | categoricalEnumParallel => intro args key kv c; rfl
  | uniform => intro args key kv c; rfl

/-- The primal of every site estimator is the site's value, for continuations that project. -/
theorem primJvp_proj (nz : Noise) (prim : Prim) :
    ∀ (ds : List Dual) (key : Key) (kv : Val → Key → Except Err Dual) (kv' : VVal → Key → Except Err Rat),
      (∀ v k', Proj (kv v k') (kv' v.primal k')) →
      Proj (primJvp nz prim ds key kv) (primVal nz prim (ds.map (·.p)) key kv') := by
  induction prim with
  | baseline inner ih =>
    intro ds key kv kv' H
    cases ds with
    | nil => rfl
    | cons b args =>
      simp only [primJvp, primVal, List.map]
      have h1 := ih args key (fun v k' => do pure ((← kv v k') - b))
        (fun v k' => do pure ((← kv' v k') - b.p))
        (fun v k' => proj_bind (H v k') (fun d => rfl))
      rw [primVal_shift] at h1
      have h2 := proj_bind (f := fun l => pure (l + b)) (g := fun r => pure (r + b.p)) h1 (fun d => rfl)
      have h3 : ((do pure ((← primVal nz inner (args.map (·.p)) key kv') - b.p)) >>= fun r => (pure (r + b.p) : Except Err Rat))
          = primVal nz inner (args.map (·.p)) key kv' := by
        cases primVal nz inner (args.map (·.p)) key kv' with
        | error e => rfl
        | ok r => simp only [bind_ok, pure, Except.pure]; congr 1; ring
      rw [h3] at h2
      exact h2
  | flipEnum =>
    intro ds key kv kv' H
    match ds with
    | [] => rfl
    | [p] =>
      simp only [primJvp, primVal, List.map]
      refine proj_bind (H (.b true) key) (fun a => proj_bind (H (.b false) key) (fun b => ?_))
      simp [Proj, Except.map, pure, Except.pure, flipEnumJvp]
    | _ :: _ :: _ => rfl
  | flipReinforce =>
    intro ds key kv kv' H
    match ds with
    | [] => rfl
    | [p] =>
      simp only [primJvp, primVal, List.map]
      refine proj_optE _ _ (fun u => ?_)
      exact proj_post _ (H (.b (decide (u < p.p))) (key ++ [0])) (fun d => rfl)
    | _ :: _ :: _ => rfl
  | normalReparam =>
    intro ds key kv kv' H
    match ds with
    | [] => rfl
    | [_] => rfl
    | [mu, sigma] =>
      simp only [primJvp, primVal, List.map]
      refine proj_optE _ _ (fun e => ?_)
      have := H (.r (normalReparamSample mu sigma e)) key
      simpa [Val.primal, normalReparamSample] using this
    | _ :: _ :: _ :: _ => rfl
  | normalReinforce =>
    intro ds key kv kv' H
    match ds with
    | [] => rfl
    | [_] => rfl
    | [mu, sigma] =>
      simp only [primJvp, primVal, List.map]
      refine proj_optE _ _ (fun e => ?_)
      exact proj_post _ (H (.r (Dual.const (e * sigma.p + mu.p))) (key ++ [0])) (fun d => rfl)
    | _ :: _ :: _ :: _ => rfl
  | flipMvd => intro ds key kv kv' H; rfl
  | flipEnumParallel => intro ds key kv kv' H; rfl
  | categoricalEnumParallel => intro ds key kv kv' H; rfl
  | uniform => intro ds key kv kv' H; rfl

theorem siteFree_branches (prog : Prog) (h : prog.siteFree = true) : prog.branchesSiteFree = true := by
  induction prog with
  | ret e => rfl
  | sample prim args k ih => simp [Prog.siteFree] at h
  | addCost e k ih => simp [Prog.siteFree] at h
  | cond i pt pf k iht ihf ihk =>
    simp only [Prog.siteFree, Bool.and_eq_true] at h
    simp only [Prog.branchesSiteFree, Bool.and_eq_true]
    exact ⟨⟨h.1.1, h.1.2⟩, ihk h.2⟩

theorem except_bind_assoc {α β γ : Type} (a : Except Err α) (f : α → Except Err β) (g : β → Except Err γ) :
    (a >>= f) >>= g = a >>= fun x => f x >>= g := by
  cases a <;> rfl

theorem except_bind_pure {α : Type} (a : Except Err α) : a >>= pure = a := by
  cases a <;> rfl

/-- For a site-free program the continuation can be applied afterwards (specification side). -/
theorem evalVal_siteFree (ln : Rat → Option Rat) (nz : Noise) (prog : Prog) (h : prog.siteFree = true) :
    ∀ (env : VEnv) (key : Key) (K : Rat → Except Err Rat),
      evalVal ln nz prog env key K = evalVal ln nz prog env key pure >>= K := by
  induction prog with
  | ret e =>
    intro env key K
    simp only [evalVal]
    rw [except_bind_pure]
  | sample prim args k ih => simp [Prog.siteFree] at h
  | addCost e k ih => simp [Prog.siteFree] at h
  | cond i pt pf k iht ihf ihk =>
    intro env key K
    simp only [Prog.siteFree, Bool.and_eq_true] at h
    obtain ⟨⟨hpt, hpf⟩, hk⟩ := h
    simp only [evalVal]
    rw [except_bind_assoc]
    congr 1
    funext c
    have hK : (fun r => evalVal ln nz k { env with rs := env.rs ++ [r] } key K)
        = fun r => evalVal ln nz k { env with rs := env.rs ++ [r] } key pure >>= K := by
      funext r; exact ihk hk _ key K
    rw [hK]
    cases c
    · simp only [Bool.false_eq_true, if_false]
      rw [ihf hpf env key _, ihf hpf env key (fun r => evalVal ln nz k { env with rs := env.rs ++ [r] } key pure),
        except_bind_assoc]
    · simp only [if_true]
      rw [iht hpt env key _, iht hpt env key (fun r => evalVal ln nz k { env with rs := env.rs ++ [r] } key pure),
        except_bind_assoc]

/-- `evalK` projects to `evalVal` for programs whose `cond` branches are site-free: the primal the
    interpreter returns is the program's value for the same noise, for every such program,
    environment, key and (projecting) continuation. -/
theorem evalK_proj (ln : Rat → Option Rat) (nz : Noise) (prog : Prog) (hb : prog.branchesSiteFree = true) :
    ∀ (env : Env) (key : Key) (K : Dual → Except Err Dual) (K' : Rat → Except Err Rat),
      (∀ d, Proj (K d) (K' d.p)) →
      Proj (evalK ln nz prog env key K) (evalVal ln nz prog env.primal key K') := by
  induction prog with
  | ret e =>
    intro env key K K' H
    simp only [evalK, evalVal]
    exact proj_bind (evalExpr_proj ln env e) H
  | sample prim args k ih =>
    intro env key K K' H
    simp only [evalK, evalVal]
    have ha := evalArgs_proj ln env args
    cases hd : evalArgs ln env args with
    | error x => rw [hd] at ha; rw [← ha]; rfl
    | ok ds =>
      rw [hd] at ha; rw [← ha]
      simp only [Except.map, bind_ok]
      refine primJvp_proj nz prim ds key _ _ (fun v k' => ?_)
      rw [← Env.primal_push]
      exact ih hb (env.push v) k' K K' H
  | addCost e k ih =>
    intro env key K K' H
    simp only [evalK, evalVal]
    refine proj_bind (evalExpr_proj ln env e) (fun w => proj_bind (ih hb env key K K' H) (fun l => rfl))
  | cond i pt pf k iht ihf ihk =>
    intro env key K K' H
    simp only [Prog.branchesSiteFree, Bool.and_eq_true] at hb
    obtain ⟨⟨hpt, hpf⟩, hk⟩ := hb
    simp only [evalK, evalVal]
    have : env.primal.bs = env.bs := rfl
    rw [this]
    refine proj_optE _ _ (fun c => ?_)
    have HK : ∀ d, Proj (evalK ln nz k (env.pushR d) key K)
        (evalVal ln nz k { env.primal with rs := env.primal.rs ++ [d.p] } key K') := by
      intro d
      have := ihk hk (env.pushR d) key K K' H
      simpa [Env.pushR, Env.primal] using this
    cases c
    · simp only [Bool.false_eq_true, if_false]
      rw [evalVal_siteFree ln nz pf hpf]
      exact proj_bind (ihf (siteFree_branches pf hpf) env key pure pure (fun _ => rfl)) HK
    · simp only [if_true]
      rw [evalVal_siteFree ln nz pt hpt]
      exact proj_bind (iht (siteFree_branches pt hpt) env key pure pure (fun _ => rfl)) HK

/-! ## Linearity in the input tangent -/

/-- Multiply the tangent by `τ`. -/
def scale (τ : Rat) (d : Dual) : Dual := ⟨d.p, τ * d.t⟩

@[simp] theorem scale_p (τ : Rat) (d : Dual) : (scale τ d).p = d.p := rfl
@[simp] theorem scale_t (τ : Rat) (d : Dual) : (scale τ d).t = τ * d.t := rfl

theorem scale_add (τ : Rat) (a b : Dual) : scale τ (a + b) = scale τ a + scale τ b :=
  Dual.ext' rfl (by simp; ring)
theorem scale_sub (τ : Rat) (a b : Dual) : scale τ (a - b) = scale τ a - scale τ b :=
  Dual.ext' rfl (by simp; ring)
theorem scale_mul (τ : Rat) (a b : Dual) : scale τ (a * b) = scale τ a * scale τ b :=
  Dual.ext' rfl (by simp; ring)
theorem scale_div (τ : Rat) (a b : Dual) : scale τ (a / b) = scale τ a / scale τ b :=
  Dual.ext' rfl (by simp; ring)
theorem scale_neg (τ : Rat) (a : Dual) : scale τ (-a) = -scale τ a :=
  Dual.ext' rfl (by simp)
theorem scale_const (τ c : Rat) : scale τ (Dual.const c) = Dual.const c :=
  Dual.ext' rfl (by simp)

def Env.scale (τ : Rat) (e : Env) : Env := ⟨GenjaxVerif.Adev.scale τ e.th, e.bs, e.rs.map (GenjaxVerif.Adev.scale τ)⟩

def Val.scale (τ : Rat) : Val → Val
  | .b x => .b x
  | .r x => .r (GenjaxVerif.Adev.scale τ x)
  | .none => .none

theorem Env.scale_push (τ : Rat) (e : Env) (v : Val) : (e.push v).scale τ = (e.scale τ).push (v.scale τ) := by
  cases v <;> simp [Env.push, Env.pushB, Env.pushR, Env.scale, Val.scale]

/-- `b` is `a` with the tangent multiplied by `τ` (same error otherwise). -/
def Sc (τ : Rat) (a b : Except Err Dual) : Prop := a.map (scale τ) = b

theorem sc_bind {τ : Rat} {a b : Except Err Dual} {f g : Dual → Except Err Dual}
    (h : Sc τ a b) (hf : ∀ d, Sc τ (f d) (g (scale τ d))) : Sc τ (a >>= f) (b >>= g) := by
  cases a with
  | error e => cases h; rfl
  | ok d => cases h; exact hf d

theorem sc_optE {τ : Rat} {α : Type} (e : Err) (o : Option α) {f g : α → Except Err Dual}
    (hf : ∀ a, Sc τ (f a) (g a)) : Sc τ (optE e o >>= f) (optE e o >>= g) := by
  cases o with
  | none => rfl
  | some a => exact hf a

theorem sc_pure {τ : Rat} {a b : Dual} (h : scale τ a = b) :
    Sc τ (pure a : Except Err Dual) (pure b) := by
  simp [Sc, Except.map, pure, Except.pure, h]

theorem evalExpr_scale (ln : Rat → Option Rat) (τ : Rat) (env : Env) (e : Expr) :
    Sc τ (evalExpr ln env e) (evalExpr ln (env.scale τ) e) := by
  induction e with
  | c r => exact sc_pure (scale_const τ r)
  | th => rfl
  | rv i =>
    simp only [evalExpr, Env.scale, List.getElem?_map]
    cases env.rs[i]? <;> rfl
  | add a b iha ihb =>
    simp only [evalExpr]
    exact sc_bind iha (fun d => sc_bind ihb (fun d' => sc_pure (scale_add τ d d')))
  | sub a b iha ihb =>
    simp only [evalExpr]
    exact sc_bind iha (fun d => sc_bind ihb (fun d' => sc_pure (scale_sub τ d d')))
  | mul a b iha ihb =>
    simp only [evalExpr]
    exact sc_bind iha (fun d => sc_bind ihb (fun d' => sc_pure (scale_mul τ d d')))
  | div a b iha ihb =>
    simp only [evalExpr]
    exact sc_bind iha (fun d => sc_bind ihb (fun d' => sc_pure (scale_div τ d d')))
  | neg a iha =>
    simp only [evalExpr]
    exact sc_bind iha (fun d => sc_pure (scale_neg τ d))
  | log a iha =>
    simp only [evalExpr]
    refine sc_bind iha (fun d => ?_)
    simp only [scale_p]
    refine sc_optE _ _ (fun l => sc_pure ?_)
    exact Dual.ext' rfl (by simp; ring)
  | ite i a b iha ihb =>
    simp only [evalExpr]
    have : (env.scale τ).bs = env.bs := rfl
    rw [this]
    refine sc_optE _ _ (fun c => ?_)
    refine sc_bind iha (fun d => sc_bind ihb (fun d' => sc_pure ?_))
    cases c <;> rfl

theorem evalArgs_scale (ln : Rat → Option Rat) (τ : Rat) (env : Env) (es : List Expr) :
    (evalArgs ln env es).map (fun ds => ds.map (scale τ)) = evalArgs ln (env.scale τ) es := by
  induction es with
  | nil => rfl
  | cons e es ih =>
    simp only [evalArgs]
    have h := evalExpr_scale ln τ env e
    unfold Sc at h
    cases he : evalExpr ln env e with
    | error x => rw [he] at h; rw [← h]; rfl
    | ok d =>
      rw [he] at h; rw [← h, ← ih]
      cases evalArgs ln env es <;> rfl

theorem flipLpTangent_scale (τ : Rat) (x : Bool) (p : Dual) :
    flipLpTangent x (scale τ p) = τ * flipLpTangent x p := by
  cases x <;> simp [flipLpTangent] <;> ring

theorem normalLpTangent_scale (τ x : Rat) (mu sigma : Dual) :
    normalLpTangent x (scale τ mu) (scale τ sigma) = τ * normalLpTangent x mu sigma := by
  simp [normalLpTangent]; ring

theorem primJvp_scale (nz : Noise) (τ : Rat) (prim : Prim) :
    ∀ (ds : List Dual) (key : Key) (kv kv' : Val → Key → Except Err Dual),
      (∀ v k', Sc τ (kv v k') (kv' (v.scale τ) k')) →
      Sc τ (primJvp nz prim ds key kv) (primJvp nz prim (ds.map (scale τ)) key kv') := by
  induction prim with
  | baseline inner ih =>
    intro ds key kv kv' H
    cases ds with
    | nil => rfl
    | cons b args =>
      simp only [primJvp, List.map]
      refine sc_bind (ih args key _ _ (fun v k' => sc_bind (H v k') (fun d => sc_pure (scale_sub τ d b)))) ?_
      intro l
      exact sc_pure (scale_add τ l b)
  | flipEnum =>
    intro ds key kv kv' H
    match ds with
    | [] => rfl
    | [p] =>
      simp only [primJvp, List.map]
      refine sc_bind (H (.b true) key) (fun a => sc_bind (H (.b false) key) (fun b => sc_pure ?_))
      simp only [flipEnumJvp, scale_add, scale_mul, scale_sub, scale_const]
      rfl
    | _ :: _ :: _ => rfl
  | flipReinforce =>
    intro ds key kv kv' H
    match ds with
    | [] => rfl
    | [p] =>
      obtain ⟨pp, pt⟩ := p
      simp only [primJvp, List.map, scale]
      refine sc_optE _ _ (fun u => ?_)
      refine sc_bind (H (.b _) (key ++ [0])) (fun d => sc_pure ?_)
      generalize (decide (u < pp) : Bool) = x
      refine Dual.ext' rfl ?_
      cases x <;> simp [flipReinforceJvp, reinforceCombine, flipLpTangent, scale] <;> ring
    | _ :: _ :: _ => rfl
  | normalReparam =>
    intro ds key kv kv' H
    match ds with
    | [] => rfl
    | [_] => rfl
    | [mu, sigma] =>
      simp only [primJvp, List.map]
      refine sc_optE _ _ (fun e => ?_)
      have := H (.r (normalReparamSample mu sigma e)) key
      simpa [Val.scale, normalReparamSample, scale_add, scale_mul, scale_const] using this
    | _ :: _ :: _ :: _ => rfl
  | normalReinforce =>
    intro ds key kv kv' H
    match ds with
    | [] => rfl
    | [_] => rfl
    | [mu, sigma] =>
      simp only [primJvp, List.map, scale_p]
      refine sc_optE _ _ (fun e => ?_)
      have h := H (.r (Dual.const (e * sigma.p + mu.p))) (key ++ [0])
      simp only [Val.scale, scale_const] at h
      refine sc_bind h (fun d => sc_pure ?_)
      refine Dual.ext' rfl ?_
      simp [normalReinforceJvp, reinforceCombine, normalLpTangent_scale]; ring
    | _ :: _ :: _ :: _ => rfl
  | flipMvd => intro ds key kv kv' H; rfl
  | flipEnumParallel => intro ds key kv kv' H; rfl
  | categoricalEnumParallel => intro ds key kv kv' H; rfl
  | uniform => intro ds key kv kv' H; rfl

/-- Scaling every input tangent by `τ` scales the output tangent by `τ` and leaves the primal (and
    every sampling decision) unchanged — for every program, environment, key and continuation. -/
theorem evalK_scale (ln : Rat → Option Rat) (nz : Noise) (τ : Rat) (prog : Prog) :
    ∀ (env : Env) (key : Key) (K K' : Dual → Except Err Dual),
      (∀ d, Sc τ (K d) (K' (scale τ d))) →
      Sc τ (evalK ln nz prog env key K) (evalK ln nz prog (env.scale τ) key K') := by
  induction prog with
  | ret e =>
    intro env key K K' H
    simp only [evalK]
    exact sc_bind (evalExpr_scale ln τ env e) H
  | sample prim args k ih =>
    intro env key K K' H
    simp only [evalK]
    have ha := evalArgs_scale ln τ env args
    cases hd : evalArgs ln env args with
    | error x => rw [hd] at ha; rw [← ha]; rfl
    | ok ds =>
      rw [hd] at ha; rw [← ha]
      simp only [Except.map, bind_ok]
      refine primJvp_scale nz τ prim ds key _ _ (fun v k' => ?_)
      rw [← Env.scale_push]
      exact ih (env.push v) k' K K' H
  | addCost e k ih =>
    intro env key K K' H
    simp only [evalK]
    refine sc_bind (evalExpr_scale ln τ env e) (fun w => sc_bind (ih env key K K' H) (fun l => sc_pure ?_))
    exact Dual.ext' rfl (by simp [addCostJvp]; ring)
  | cond i pt pf k iht ihf ihk =>
    intro env key K K' H
    simp only [evalK]
    have : (env.scale τ).bs = env.bs := rfl
    rw [this]
    refine sc_optE _ _ (fun c => ?_)
    have HK : ∀ d, Sc τ (evalK ln nz k (env.pushR d) key K)
        (evalK ln nz k ((env.scale τ).pushR (scale τ d)) key K') := by
      intro d
      have := ihk (env.pushR d) key K K' H
      simpa [Env.pushR, Env.scale] using this
    cases c
    · simp only [Bool.false_eq_true, if_false]
      exact sc_bind (ihf env key pure pure (fun _ => rfl)) HK
    · simp only [if_true]
      exact sc_bind (iht env key pure pure (fun _ => rfl)) HK


/-! ## Closed forms used by C30 (specification side) -/

/-- The dual of `log q` the interpreter computes when `q = ⟨q, q'⟩` and `ln q = l`:
    `⟨l, q'/q⟩` (`jax.lax.log_p`'s JVP). -/
def logDual (q : Dual) (l : Rat) : Dual := ⟨l, q.t / q.p⟩

/-- `−ELBO` for a Bernoulli(p) guide: `−Σ_x q(x) (A x − ln q(x))`, with `A x = log p(x, obs)`,
    `L1 = ln p`, `L0 = ln (1 − p)`. -/
def negElboFlip (p AT AF L1 L0 : Rat) : Rat := -(p * (AT - L1) + (1 - p) * (AF - L0))

/-- Its θ-derivative, by the product rule and `d ln q = q'/q` (the score terms
    `p·(p'/p) + (1−p)·(−p'/(1−p))` cancel): `−(p'·((AT − L1) − (AF − L0)) + p·AT' + (1−p)·AF')`. -/
def negElboFlipGrad (p p' AT AF AT' AF' L1 L0 : Rat) : Rat :=
  -(p' * ((AT - L1) - (AF - L0)) + p * AT' + (1 - p) * AF')

/-- `−E_q[log p(x, obs)]` (what is left of the ELBO when the guide's log density is dropped). -/
def negExpLogp (p AT AF : Rat) : Rat := -(p * AT + (1 - p) * AF)
def negExpLogpGrad (p p' AT AF AT' AF' : Rat) : Rat := -(p' * (AT - AF) + p * AT' + (1 - p) * AF')

/-- The dual `tfd.Normal(m, s).log_prob(x)` evaluates to, given `ln s.p = l`
    (the value of `normalLogpdfExpr c x m s`). -/
def normalLpDual (c : Rat) (x m s : Dual) (l : Rat) : Dual :=
  Dual.const (-1/2) * (((x - m) / s) * ((x - m) / s)) - (Dual.const c + logDual s l)


/-! ## Key threading -/

theorem primKeys_shape (prim : Prim) (h : prim.splitsKey = true) (key : Key) :
    primKeys prim key = ([key ++ [1]], key ++ [0]) ∨ primKeys prim key = ([], key) := by
  induction prim with
  | baseline inner ih => exact ih h
  | flipReinforce => left; rfl
  | normalReinforce => left; rfl
  | flipEnum => right; rfl
  | flipMvd => simp [Prim.splitsKey] at h
  | flipEnumParallel => simp [Prim.splitsKey] at h
  | categoricalEnumParallel => simp [Prim.splitsKey] at h
  | uniform => simp [Prim.splitsKey] at h
  | normalReparam => simp [Prim.splitsKey] at h

/-- Every noise key a key-safe program reads strictly extends the key it was started with. -/
theorem siteKeys_prefix (prog : Prog) (h : prog.keySafe = true) :
    ∀ key x, x ∈ siteKeys prog key → ∃ s, x = key ++ s ∧ s ≠ [] := by
  induction prog with
  | ret e => intro key x hx; simp [siteKeys] at hx
  | sample prim args k ih =>
    intro key x hx
    simp only [Prog.keySafe, Bool.and_eq_true] at h
    simp only [siteKeys, List.mem_append] at hx
    rcases primKeys_shape prim h.1 key with hs | hs
    · rw [hs] at hx
      rcases hx with hx | hx
      · simp at hx; exact ⟨[1], hx, by simp⟩
      · obtain ⟨s, hs', _⟩ := ih h.2 (key ++ [0]) x hx
        exact ⟨[0] ++ s, by simp [hs'], by simp⟩
    · rw [hs] at hx
      rcases hx with hx | hx
      · simp at hx
      · exact ih h.2 key x hx
  | addCost e k ih => intro key x hx; exact ih h key x hx
  | cond i pt pf k _ _ _ => simp [Prog.keySafe] at h

end GenjaxVerif.Adev
