import GenjaxVerif.Lemmas.GFIReplay
/-! Every returned trace records the arguments it was run with; a trace's score is the sum of the
    log-densities of its live primitive choices. -/
namespace GenjaxVerif.GFI
open GenjaxVerif

theorem maskArgs_args {args : Val} {check : Bool} {iargs : List Val} (h : maskArgs args = .ok (check, iargs)) :
    args = .tup (Val.ofBool check :: iargs) := by
  unfold maskArgs at h
  split at h
  · rename_i f rest
    simp only [bind_ok, pure_ok] at h
    obtain ⟨b, hb, h2⟩ := h
    simp at h2; obtain ⟨rfl, rfl⟩ := h2
    unfold Val.asFlag at hb
    split at hb <;> simp at hb <;> subst hb <;> rfl
  · simp at h

mutual
/-- `trace.get_args()` is what the operation was called with (for update: the NEW arguments). -/
theorem run_args (ds : DistSem) : ∀ (m : Mode) (p : Prog) (i : In) (r : Res), run ds m p i = .ok r → r.tr.args = i.args
  | m, .dist d, i, r, h => by
    simp only [run] at h
    obtain ⟨v, hv⟩ := leaf_form h
    rw [hv]; rfl
  | m, .static b, i, r, h => by
    simp only [run, staticRun, bind_ok, pure_ok] at h
    obtain ⟨env, _, olds, _, ⟨st, v⟩, _, rfl⟩ := h
    rfl
  | m, .vmap p axes, i, r, h => by
    simp only [run, vmapRun, bind_ok, pure_ok] at h
    obtain ⟨as, _, n, _, _, _, rs, _, rfl⟩ := h
    rfl
  | m, .scan p len, i, r, h => by
    simp only [run, scanRun, bind_ok, pure_ok] at h
    obtain ⟨⟨carry, xs⟩, _, _, _, ⟨rs, fin⟩, _, ys, _, rfl⟩ := h
    rfl
  | m, .switch ps, i, r, h => by
    simp only [run] at h
    obtain ⟨idx, ba, m', i', r', _, _, _, htr⟩ := switchRun_form h
    rw [htr]; rfl
  | m, .mask p, i, r, h => by
    simp only [run] at h
    obtain ⟨check, iargs, m', i', r', hma, hf, hia, htr⟩ := maskRun_form h
    have := run_args ds m' p i' r' hf
    rw [htr]
    simp only [Trace.args, this, hia]
    exact (maskArgs_args hma).symm
  | m, .dimap pre p post, i, r, h => by
    simp only [run, dimapRun, bind_ok, pure_ok] at h
    obtain ⟨as, _, ia, _, o, _, r', _, rv, _, rfl⟩ := h
    rfl
end

/-! ### sites -/

/-- One primitive random choice of a trace: its address, distribution, arguments, value, stored
    log-density, and whether it is live (not under a False mask flag). -/
structure Site where
  path : Path
  d : Nat
  args : Val
  v : Int
  lp : Int
  live : Bool

def Site.pre (ks : Path) (s : Site) : Site := { s with path := ks ++ s.path }
def Site.masked (f : Bool) (s : Site) : Site := { s with live := s.live && f }

mutual
/-- The primitive choices of a trace, in execution order, under their full addresses. -/
def sites : Trace → List Site
  | .dist d a v lp => [⟨[], d, a, v, lp, true⟩]
  | .static _ _ subs => sitesAL subs
  | .vec _ _ elems => sitesL 0 elems
  | .switch _ _ sub => sites sub
  | .mask f inner => (sites inner).map (Site.masked f)
  | .dimap _ _ inner => sites inner
def sitesL (k : Nat) : List Trace → List Site
  | [] => []
  | t :: ts => (sites t).map (Site.pre [.i k]) ++ sitesL (k + 1) ts
def sitesAL : List (List String × Trace) → List Site
  | [] => []
  | (a, t) :: ts => (sites t).map (Site.pre (a.map Comp.s)) ++ sitesAL ts
end

/-- The sum of the stored log-densities of the live sites. -/
def liveSum (ss : List Site) : Int := (ss.map fun s => if s.live then s.lp else 0).sum

theorem liveSum_append (a b : List Site) : liveSum (a ++ b) = liveSum a + liveSum b := by
  simp [liveSum]

theorem liveSum_pre (ks : Path) (ss : List Site) : liveSum (ss.map (Site.pre ks)) = liveSum ss := by
  induction ss with
  | nil => rfl
  | cons s ss ih => simp only [liveSum, List.map_cons, List.sum_cons] at ih ⊢; rw [ih]; rfl

theorem liveSum_masked (f : Bool) (ss : List Site) :
    liveSum (ss.map (Site.masked f)) = if f then liveSum ss else 0 := by
  induction ss with
  | nil => cases f <;> rfl
  | cons s ss ih =>
    simp only [liveSum, List.map_cons, List.sum_cons] at ih ⊢
    rw [ih]
    cases f <;> simp [Site.masked]

mutual
/-- A trace's score is the sum, over every live random choice it holds, of that choice's stored
    log-density; choices under a False mask contribute nothing. -/
theorem score_eq_liveSum : ∀ (t : Trace), t.score = liveSum (sites t)
  | .dist _ _ _ lp => by simp [Trace.score, sites, liveSum]
  | .static _ _ subs => by simp only [Trace.score, sites]; exact scoreAL_eq_liveSum subs
  | .vec _ _ elems => by simp only [Trace.score, sites]; exact scoreL_eq_liveSum 0 elems
  | .switch _ _ sub => by simp only [Trace.score, sites]; exact score_eq_liveSum sub
  | .mask f inner => by
    simp only [Trace.score, sites, liveSum_masked, score_eq_liveSum inner]
  | .dimap _ _ inner => by simp only [Trace.score, sites]; exact score_eq_liveSum inner
theorem scoreL_eq_liveSum : ∀ (k : Nat) (ts : List Trace), Trace.scoreL ts = liveSum (sitesL k ts)
  | _, [] => by simp [Trace.scoreL, sitesL, liveSum]
  | k, t :: ts => by
    simp only [Trace.scoreL, sitesL, liveSum_append, liveSum_pre, score_eq_liveSum t, scoreL_eq_liveSum (k + 1) ts]
theorem scoreAL_eq_liveSum : ∀ (subs : List (List String × Trace)), Trace.scoreAL subs = liveSum (sitesAL subs)
  | [] => by simp [Trace.scoreAL, sitesAL, liveSum]
  | (a, t) :: ts => by
    simp only [Trace.scoreAL, sitesAL, liveSum_append, liveSum_pre, score_eq_liveSum t, scoreAL_eq_liveSum ts]
end

end GenjaxVerif.GFI
