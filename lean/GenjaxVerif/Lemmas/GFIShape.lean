import GenjaxVerif.Lemmas.GFIBasic
/-! `Shape p t`: the trace `t` has the structure the program `p` produces.  Every operation
    returns a trace of that shape (for every mode). -/
namespace GenjaxVerif.GFI
open GenjaxVerif

mutual
def Shape : Prog → Trace → Prop
  | .dist _, .dist _ _ _ _ => True
  | .static b, .static _ _ subs => ShapeBody b subs
  | .vmap p _, .vec _ _ elems => ∀ t ∈ elems, Shape p t
  | .scan p _, .vec _ _ elems => ∀ t ∈ elems, Shape p t
  | .switch ps, .switch _ idx sub => ShapeNth ps idx sub
  | .mask p, .mask _ inner => Shape p inner
  | .dimap _ p _, .dimap _ _ inner => Shape p inner
  | _, _ => False
def ShapeNth : List Prog → Nat → Trace → Prop
  | [], _, _ => False
  | p :: _, 0, t => Shape p t
  | _ :: ps, k + 1, t => ShapeNth ps k t
/-- The recorded subtraces are exactly the body's `trace` statements, in order. -/
def ShapeBody : Body → List (List String × Trace) → Prop
  | .ret _, subs => subs = []
  | .bind addr p _ rest, (a, t) :: subs => a = addr ∧ Shape p t ∧ ShapeBody rest subs
  | .bind _ _ _ _, [] => False
end

theorem leaf_shape {ds m d i r} (h : leaf ds m d i = .ok r) : Shape (.dist d) r.tr := by
  unfold leaf at h
  cases m <;> simp only at h
  · simp at h; subst h; simp [Shape]
  · split at h <;> simp at h <;> subst h <;> simp [Shape]
  · split at h
    · simp at h; subst h; simp [Shape]
    · split at h <;> simp at h <;> subst h <;> simp [Shape]
    · simp at h; subst h; simp [Shape]
  · simp only [bind_ok] at h
    obtain ⟨t, _, h2⟩ := h
    split at h2
    · split at h2 <;> simp at h2 <;> subst h2 <;> simp [Shape]
    · simp at h2
  · simp only [bind_ok] at h
    obtain ⟨t, _, h2⟩ := h
    split at h2
    · split at h2 <;> simp at h2 <;> subst h2 <;> simp [Shape]
    · simp at h2

/-- Appending a matching subtrace to a partial body shape. -/
def ShapeSuffix (b : Body) (pre : List (List String × Trace)) (all : List (List String × Trace)) : Prop :=
  ∃ suf, all = pre ++ suf ∧ ShapeBody b suf

mutual
theorem run_shape (ds : DistSem) : ∀ (m : Mode) (p : Prog) (i : In) (r : Res), run ds m p i = .ok r → Shape p r.tr
  | m, .dist d, i, r, h => by simp only [run] at h; exact leaf_shape h
  | m, .static b, i, r, h => by
    simp only [run, staticRun, bind_ok, pure_ok] at h
    obtain ⟨env, _, olds, _, ⟨st, v⟩, h3, rfl⟩ := h
    obtain ⟨suf, h1, h2⟩ := run_shape_body ds m b i olds env {} st v h3
    simp only [Shape]
    simpa [h1] using h2
  | m, .vmap p axes, i, r, h => by
    simp only [run, vmapRun, bind_ok, pure_ok] at h
    obtain ⟨as, _, n, _, _, _, rs, h3, rfl⟩ := h
    have hall : ∀ r ∈ rs, Shape p r.tr :=
      vmapLoop_forall (P := fun r => Shape p r.tr) (fun k r hk => by
        simp only [bind_ok] at hk
        obtain ⟨i', _, h'⟩ := hk
        exact run_shape ds m p i' r h') h3
    simp only [vecRes, Shape]
    intro t ht
    simp at ht
    obtain ⟨r, hr, rfl⟩ := ht
    exact hall r hr
  | m, .scan p len, i, r, h => by
    simp only [run, scanRun, bind_ok, pure_ok] at h
    obtain ⟨⟨carry, xs⟩, _, _, _, ⟨rs, fin⟩, h3, ys, _, rfl⟩ := h
    have hall : ∀ r ∈ rs, Shape p r.tr :=
      scanLoop_forall (P := fun r => Shape p r.tr) (fun k key c x r hk => by
        simp only [bind_ok] at hk
        obtain ⟨i', _, h'⟩ := hk
        exact run_shape ds m p i' r h') h3
    simp only [vecRes, Shape]
    intro t ht
    simp at ht
    obtain ⟨r, hr, rfl⟩ := ht
    exact hall r hr
  | m, .switch ps, i, r, h => by
    simp only [run, switchRun, bind_ok] at h
    obtain ⟨⟨idx, ba⟩, _, h2⟩ := h
    cases m <;> simp only at h2
    case upd =>
      split at h2
      · split at h2
        · simp only [bind_ok, pure_ok] at h2
          obtain ⟨fr, _, r', h4, rfl⟩ := h2
          simpa [Shape] using run_shape_nth ds .upd ps idx _ r' h4
        · split at h2
          · simp [bind_ok] at h2
          · simp only [bind_ok, pure_ok] at h2
            obtain ⟨r', h4, rfl⟩ := h2
            simpa [Shape] using run_shape_nth ds .upd ps idx _ r' h4
      · simp at h2
    case regen => simp at h2
    all_goals
      simp only [bind_ok, pure_ok] at h2
      obtain ⟨r', h4, rfl⟩ := h2
      simpa [Shape] using run_shape_nth ds _ ps idx _ r' h4
  | m, .mask p, i, r, h => by
    simp only [run, maskRun, bind_ok] at h
    obtain ⟨⟨check, iargs⟩, _, h2⟩ := h
    cases m <;> simp only at h2
    case upd =>
      split at h2
      · simp only [bind_ok, pure_ok] at h2
        obtain ⟨r', h4, rfl⟩ := h2
        simpa [Shape] using run_shape ds .upd p _ r' h4
      · simp at h2
    case regen => simp at h2
    all_goals
      simp only [bind_ok, pure_ok] at h2
      obtain ⟨r', h4, rfl⟩ := h2
      simpa [Shape] using run_shape ds _ p _ r' h4
  | m, .dimap pre p post, i, r, h => by
    simp only [run, dimapRun, bind_ok, pure_ok] at h
    obtain ⟨as, _, ia, _, o, _, r', h4, rv, _, rfl⟩ := h
    simpa [Shape] using run_shape ds m p _ r' h4

theorem run_shape_nth (ds : DistSem) : ∀ (m : Mode) (ps : List Prog) (k : Nat) (i : In) (r : Res),
    runNth ds m ps k i = .ok r → ShapeNth ps k r.tr
  | _, [], _, _, _, h => by simp [runNth] at h
  | m, p :: _, 0, i, r, h => by simp only [runNth] at h; simpa [ShapeNth] using run_shape ds m p i r h
  | m, _ :: ps, k + 1, i, r, h => by
    simp only [runNth] at h; simpa [ShapeNth] using run_shape_nth ds m ps k i r h

theorem run_shape_body (ds : DistSem) : ∀ (m : Mode) (b : Body) (i : In) (olds env) (st st' : SState) (v : Val),
    runBody ds m b i olds env st = .ok (st', v) → ShapeSuffix b st.subs st'.subs
  | m, .ret e, i, olds, env, st, st', v, h => by
    simp only [runBody, bind_ok, pure_ok] at h
    obtain ⟨_, _, h2⟩ := h
    simp at h2; obtain ⟨rfl, _⟩ := h2
    exact ⟨[], by simp, by simp [ShapeBody]⟩
  | m, .bind addr p aes rest, i, olds, env, st, st', v, h => by
    simp only [runBody, bind_ok] at h
    obtain ⟨a, _, i', _, r, h3, h4⟩ := h
    obtain ⟨suf, h5, h6⟩ := run_shape_body ds m rest i olds _ _ st' v h4
    refine ⟨(addr, r.tr) :: suf, ?_, ?_⟩
    · simpa [bindOut] using h5
    · exact ⟨rfl, run_shape ds m p i' r h3, h6⟩
end

end GenjaxVerif.GFI
