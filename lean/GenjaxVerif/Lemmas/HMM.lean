import GenjaxVerif.Model.HMM
import Mathlib.Algebra.BigOperators.Group.Finset.Basic
import Mathlib.Algebra.BigOperators.Ring.Finset
import Mathlib.Algebra.BigOperators.Field
import Mathlib.Algebra.Order.Field.Rat
import Mathlib.Algebra.Order.BigOperators.Ring.Finset
import Mathlib.Tactic.Ring
import Mathlib.Tactic.FieldSimp
import Mathlib.Tactic.Positivity
/-! Helper lemmas for model I (HMM).  Property theorems live in `Props/C37.lean`. -/
namespace GenjaxVerif.HMM
open Finset

/-! ### lists, sums, lookups -/

theorem vget_map_range (f : Nat → Rat) {n i : Nat} (hi : i < n) :
    vget ((List.range n).map f) i = f i := by
  simp [vget, List.getD_eq_getElem?_getD, hi]

theorem sum_map_range (f : Nat → Rat) (n : Nat) :
    ((List.range n).map f).sum = ∑ i ∈ range n, f i := by
  induction n with
  | zero => simp
  | succ n ih => simp [List.range_succ, Finset.sum_range_succ, ih]

theorem vget_map_div (l : List Rat) (s : Rat) (i : Nat) :
    vget (l.map (· / s)) i = vget l i / s := by
  unfold vget
  rcases Nat.lt_or_ge i l.length with hi | hi
  · simp [List.getD_eq_getElem?_getD, hi]
  · simp [List.getD_eq_getElem?_getD, hi]

theorem vget_normalise (l : List Rat) (i : Nat) : vget (normalise l) i = vget l i / l.sum :=
  vget_map_div l l.sum i

theorem sum_map_div (l : List α) (f : α → Rat) (s : Rat) :
    (l.map fun x => f x / s).sum = (l.map f).sum / s := by
  induction l with
  | nil => simp
  | cons a l ih => simp [ih, add_div]

theorem sum_normalise {l : List Rat} (hl : l.sum ≠ 0) : (normalise l).sum = 1 := by
  have := sum_map_div l (fun x => x) l.sum
  simp only [List.map_id'] at this
  unfold normalise
  rw [this]; exact div_self hl

theorem categorical_normalise {l : List Rat} (hl : l.sum ≠ 0) (s : Nat) :
    categorical (normalise l) s = vget l s / l.sum := by
  unfold categorical
  rw [vget_normalise, sum_normalise hl, div_one, vget_normalise]

theorem categorical_eq (l : List Rat) (s : Nat) : categorical l s = vget l s / l.sum :=
  vget_normalise l s

theorem sum_flatMap_map (l : List Nat) (g : Nat → List β) (F : β → Rat) :
    ((l.flatMap g).map F).sum = (l.map fun x => ((g x).map F).sum).sum := by
  induction l with
  | nil => simp
  | cons a l ih => simp [List.flatMap_cons, List.map_append, List.sum_append, ih]

/-- Sum of `F` over all sequences of length `L` over `n` states, as iterated finite sums. -/
def seqSum (n : Nat) : Nat → (List Nat → Rat) → Rat
  | 0, F => F []
  | L + 1, F => ∑ x ∈ range n, seqSum n L (fun xs => F (x :: xs))

theorem sum_allSeqs (n L : Nat) (F : List Nat → Rat) :
    ((allSeqs n L).map F).sum = seqSum n L F := by
  induction L generalizing F with
  | zero => simp [allSeqs, seqSum]
  | succ L ih =>
    simp only [allSeqs, seqSum]
    rw [sum_flatMap_map, sum_map_range]
    refine Finset.sum_congr rfl fun x _ => ?_
    rw [List.map_map]
    exact ih _

theorem seqSum_mul_left (n L : Nat) (c : Rat) (F : List Nat → Rat) :
    seqSum n L (fun xs => c * F xs) = c * seqSum n L F := by
  induction L generalizing F with
  | zero => simp [seqSum]
  | succ L ih => simp only [seqSum]; rw [Finset.mul_sum]; exact Finset.sum_congr rfl fun x _ => ih _

theorem seqSum_congr (n L : Nat) {F G : List Nat → Rat} (hFG : ∀ xs, F xs = G xs) :
    seqSum n L F = seqSum n L G := by
  have : F = G := funext hFG
  rw [this]

theorem mem_allSeqs {n L : Nat} {s : List Nat} :
    s ∈ allSeqs n L ↔ s.length = L ∧ ∀ x ∈ s, x < n := by
  induction L generalizing s with
  | zero => cases s <;> simp [allSeqs]
  | succ L ih =>
    cases s with
    | nil => simp [allSeqs]
    | cons a t =>
      simp only [allSeqs, List.mem_flatMap, List.mem_range, List.mem_map, List.cons.injEq,
        List.length_cons, Nat.add_right_cancel_iff, List.mem_cons, forall_eq_or_imp]
      constructor
      · rintro ⟨x, hx, u, hu, rfl, rfl⟩
        have := ih.mp hu
        exact ⟨this.1, hx, this.2⟩
      · rintro ⟨hl, ha, ht⟩
        exact ⟨a, ha, t, ih.mpr ⟨hl, ht⟩, rfl, rfl⟩

/-! ### the scan of `latent_sequence_posterior` computes the joint -/

theorem scanTerms_prod_chain (h : Hmm) (p : Nat) (xs ys : List Nat) :
    (scanTerms h (h.trans.getD p []) xs ys).prod = chain h p xs ys := by
  induction xs generalizing p ys with
  | nil => simp [scanTerms, chain]
  | cons x xs ih =>
    cases ys with
    | nil => simp [scanTerms, chain]
    | cons y ys => simp only [scanTerms, chain, List.prod_cons, ih]; rfl

theorem scanJoint_eq_joint (h : Hmm) (seq ys : List Nat) : scanJoint h seq ys = joint h seq ys := by
  unfold scanJoint
  cases seq with
  | nil => simp [scanTerms, joint]
  | cons x xs =>
    cases ys with
    | nil => simp [scanTerms, joint]
    | cons y ys => simp only [scanTerms, joint, List.prod_cons, scanTerms_prod_chain]

/-! ### hypotheses as propositions -/

theorem Hmm.pos_init {h : Hmm} {m : Nat} (hp : h.pos m = true) {i : Nat} (hi : i < h.n) :
    0 < vget h.init i := by
  simp only [Hmm.pos, Hmm.states, List.all_eq_true, List.mem_range, Bool.and_eq_true,
    decide_eq_true_eq] at hp
  exact (hp i hi).1.1

theorem Hmm.pos_trans {h : Hmm} {m : Nat} (hp : h.pos m = true) {i j : Nat} (hi : i < h.n)
    (hj : j < h.n) : 0 < mget h.trans i j := by
  simp only [Hmm.pos, Hmm.states, List.all_eq_true, List.mem_range, Bool.and_eq_true,
    decide_eq_true_eq] at hp
  exact (hp i hi).1.2 j hj

theorem Hmm.pos_obs {h : Hmm} {m : Nat} (hp : h.pos m = true) {i y : Nat} (hi : i < h.n)
    (hy : y < m) : 0 < mget h.obs i y := by
  simp only [Hmm.pos, Hmm.states, List.all_eq_true, List.mem_range, Bool.and_eq_true,
    decide_eq_true_eq] at hp
  exact (hp i hi).2 y hy

theorem Hmm.symm_apply {h : Hmm} (hs : h.symm = true) {i j : Nat} (hi : i < h.n) (hj : j < h.n) :
    mget h.trans i j = mget h.trans j i := by
  simp only [Hmm.symm, Hmm.states, List.all_eq_true, List.mem_range, decide_eq_true_eq] at hs
  exact hs i hi j hj

/-- The forward variant reads the transition entry the textbook recursion needs. -/
def FwdOK (v : Fwd) (h : Hmm) : Prop :=
  ∀ i j, i < h.n → j < h.n → fwdEntry v h i j = mget h.trans j i

theorem fwdOK_textbook (h : Hmm) : FwdOK .textbook h := fun _ _ _ _ => rfl

theorem fwdOK_asWritten {h : Hmm} (hs : h.symm = true) : FwdOK .asWritten h :=
  fun _ _ hi hj => Hmm.symm_apply hs hi hj

/-! ### forward pass -/

theorem vget_initAlpha (h : Hmm) (prev : List Rat) (y : Nat) {x : Nat} (hx : x < h.n) :
    vget (initAlpha h prev y) x = mget h.obs x y * vget prev x := by
  unfold initAlpha Hmm.states; rw [vget_map_range _ hx]

theorem vget_stepAlpha {v : Fwd} {h : Hmm} (hv : FwdOK v h) (prev : List Rat) (y : Nat) {i : Nat}
    (hi : i < h.n) :
    vget (stepAlpha v h prev y) i = mget h.obs i y * ∑ j ∈ range h.n, vget prev j * mget h.trans j i := by
  unfold stepAlpha Hmm.states
  rw [vget_map_range _ hi, sum_map_range]
  congr 1
  exact Finset.sum_congr rfl fun j hj => by rw [hv i j hi (Finset.mem_range.mp hj)]

theorem sum_initAlpha (h : Hmm) (prev : List Rat) (y : Nat) :
    (initAlpha h prev y).sum = ∑ x ∈ range h.n, vget (initAlpha h prev y) x := by
  conv_lhs => unfold initAlpha Hmm.states
  rw [sum_map_range]
  exact Finset.sum_congr rfl fun x hx => (vget_initAlpha h prev y (Finset.mem_range.mp hx)).symm

theorem sum_stepAlpha (v : Fwd) (h : Hmm) (prev : List Rat) (y : Nat) :
    (stepAlpha v h prev y).sum = ∑ x ∈ range h.n, vget (stepAlpha v h prev y) x := by
  conv_lhs => unfold stepAlpha Hmm.states
  rw [sum_map_range]
  refine Finset.sum_congr rfl fun x hx => ?_
  unfold stepAlpha Hmm.states
  rw [vget_map_range _ (Finset.mem_range.mp hx)]

/-- the final carry of `lax.scan(forward_pass, (k+1, a), ys)` -/
def finalAlpha (v : Fwd) (h : Hmm) : List Rat → List Nat → List Rat
  | a, [] => a
  | a, y :: ys => finalAlpha v h (stepAlpha v h a y) ys

theorem forwardScan_succ_cons (v : Fwd) (h : Hmm) (k : Nat) (a : List Rat) (y : Nat) (ys : List Nat) :
    forwardScan v h (k + 1) a (y :: ys) =
      (stepAlpha v h a y, normalise (stepAlpha v h a y)) :: forwardScan v h (k + 2) (stepAlpha v h a y) ys := by
  simp [forwardScan]

theorem forwardScan_zero_cons (v : Fwd) (h : Hmm) (a : List Rat) (y : Nat) (ys : List Nat) :
    forwardScan v h 0 a (y :: ys) =
      (initAlpha h a y, normalise (initAlpha h a y)) :: forwardScan v h 1 (initAlpha h a y) ys := by
  simp [forwardScan]

theorem length_forwardScan (v : Fwd) (h : Hmm) (k : Nat) (a : List Rat) (ys : List Nat) :
    (forwardScan v h k a ys).length = ys.length := by
  induction ys generalizing k a with
  | nil => simp [forwardScan]
  | cons y ys ih => simp [forwardScan, ih]

theorem getLast_alphas (v : Fwd) (h : Hmm) (k : Nat) (a : List Rat) (ys : List Nat) :
    (a :: (forwardScan v h (k + 1) a ys).map (·.1)).getLast? = some (finalAlpha v h a ys) := by
  induction ys generalizing k a with
  | nil => simp [forwardScan, finalAlpha]
  | cons y ys ih =>
    rw [forwardScan_succ_cons, List.map_cons, List.getLast?_cons_cons]
    exact ih (k + 1) _

theorem forwardTotal_cons (v : Fwd) (h : Hmm) (y : Nat) (ys : List Nat) :
    forwardTotal v h (y :: ys) = (finalAlpha v h (initAlpha h h.init y) ys).sum := by
  unfold forwardTotal alphas
  rw [forwardScan_zero_cons, List.map_cons, getLast_alphas]

/-- Forward total, generalised over the carry: summing `a[x] * chain` over all continuations
    equals the total mass of the final alpha. -/
theorem forward_total_from {v : Fwd} {h : Hmm} (hv : FwdOK v h) (a : List Rat) (ys : List Nat) :
    ∑ x ∈ range h.n, vget a x * seqSum h.n ys.length (fun xs => chain h x xs ys)
      = ∑ x ∈ range h.n, vget (finalAlpha v h a ys) x := by
  induction ys generalizing a with
  | nil => simp [seqSum, chain, finalAlpha]
  | cons y ys ih =>
    simp only [List.length_cons, seqSum, chain, finalAlpha]
    rw [← ih (stepAlpha v h a y)]
    have h1 : ∀ x ∈ range h.n, vget a x * ∑ x' ∈ range h.n,
          seqSum h.n ys.length (fun xs => mget h.trans x x' * mget h.obs x' y * chain h x' xs ys)
        = ∑ x' ∈ range h.n, vget a x * mget h.trans x x' * (mget h.obs x' y *
            seqSum h.n ys.length (fun xs => chain h x' xs ys)) := by
      intro x _
      rw [Finset.mul_sum]
      refine Finset.sum_congr rfl fun x' _ => ?_
      rw [seqSum_mul_left]; ring
    rw [Finset.sum_congr rfl h1, Finset.sum_comm]
    refine Finset.sum_congr rfl fun x' hx' => ?_
    rw [vget_stepAlpha hv a y (Finset.mem_range.mp hx'), Finset.mul_sum, Finset.sum_mul]
    exact Finset.sum_congr rfl fun x _ => by ring

/-! ### positivity of the alphas -/

/-- `a` is strictly positive on the state space -/
def PosOn (n : Nat) (a : List Rat) : Prop := ∀ i, i < n → 0 < vget a i

theorem posOn_initAlpha {h : Hmm} {m : Nat} (hp : h.pos m = true) {y : Nat} (hy : y < m) :
    PosOn h.n (initAlpha h h.init y) := by
  intro i hi
  rw [vget_initAlpha h _ y hi]
  exact mul_pos (Hmm.pos_obs hp hi hy) (Hmm.pos_init hp hi)

theorem sum_trans_pos {h : Hmm} {m : Nat} (hp : h.pos m = true) {a : List Rat} (ha : PosOn h.n a)
    {i : Nat} (hi : i < h.n) : 0 < ∑ j ∈ range h.n, vget a j * mget h.trans j i := by
  apply Finset.sum_pos
  · intro j hj
    exact mul_pos (ha j (Finset.mem_range.mp hj)) (Hmm.pos_trans hp (Finset.mem_range.mp hj) hi)
  · exact ⟨i, Finset.mem_range.mpr hi⟩

theorem posOn_stepAlpha {v : Fwd} {h : Hmm} (hv : FwdOK v h) {m : Nat} (hp : h.pos m = true)
    {a : List Rat} (ha : PosOn h.n a) {y : Nat} (hy : y < m) : PosOn h.n (stepAlpha v h a y) := by
  intro i hi
  rw [vget_stepAlpha hv a y hi]
  exact mul_pos (Hmm.pos_obs hp hi hy) (sum_trans_pos hp ha hi)

theorem sum_range_pos {n : Nat} {a : List Rat} (ha : PosOn n a) {x : Nat} (hx : x < n) :
    0 < ∑ i ∈ range n, vget a i :=
  Finset.sum_pos (fun i hi => ha i (Finset.mem_range.mp hi)) ⟨x, Finset.mem_range.mpr hx⟩

/-- every alpha the scan produces has `n` entries, so its list sum is the sum over states -/
def Len (n : Nat) (a : List Rat) : Prop := a.sum = ∑ i ∈ range n, vget a i

theorem len_initAlpha (h : Hmm) (prev : List Rat) (y : Nat) : Len h.n (initAlpha h prev y) :=
  sum_initAlpha h prev y

theorem len_stepAlpha (v : Fwd) (h : Hmm) (prev : List Rat) (y : Nat) : Len h.n (stepAlpha v h prev y) :=
  sum_stepAlpha v h prev y

theorem len_finalAlpha (v : Fwd) (h : Hmm) {a : List Rat} (ha : Len h.n a) (ys : List Nat) :
    Len h.n (finalAlpha v h a ys) := by
  induction ys generalizing a with
  | nil => exact ha
  | cons y ys ih => exact ih (len_stepAlpha v h a y)

/-! ### backward scan: from the flipped lists to forward order -/

theorem getLastD_cons (t : Nat) (S : List Nat) (p : Nat) :
    (t :: S).getLast?.getD p = S.getLast?.getD t := by
  cases S with
  | nil => simp
  | cons u S =>
    rw [List.getLast?_cons_cons]
    cases hh : (u :: S).getLast? with
    | none => simp at hh
    | some w => simp

theorem backwardScan_succ_snoc (h : Hmm) (k p : Nat) (F : List (List Rat)) (S : List Nat)
    (hl : F.length = S.length) (f : List Rat) (s : Nat) :
    backwardScan h (k + 1) p (F ++ [f]) (S ++ [s]) =
      backwardScan h (k + 1) p F S * categorical (backwardKernel h f (S.getLast?.getD p)) s := by
  induction F generalizing S p k with
  | nil =>
    cases S with
    | nil => simp [backwardScan]
    | cons t S => simp at hl
  | cons g F ih =>
    cases S with
    | nil => simp at hl
    | cons t S =>
      have hl' : F.length = S.length := by simpa using hl
      simp only [List.cons_append, backwardScan]
      rw [ih (k + 1) t S hl']
      rw [getLastD_cons]; ring

theorem backwardScan_zero_snoc (h : Hmm) (p : Nat) (g : List Rat) (F : List (List Rat)) (t : Nat)
    (S : List Nat) (hl : F.length = S.length) (f : List Rat) (s : Nat) :
    backwardScan h 0 p (g :: F ++ [f]) (t :: S ++ [s]) =
      backwardScan h 0 p (g :: F) (t :: S) * categorical (backwardKernel h f (S.getLast?.getD t)) s := by
  simp only [List.cons_append, backwardScan]
  rw [backwardScan_succ_snoc h 0 t F S hl]; ring

/-- The backward sampler's probability in forward order: the last state from the last filter,
    every earlier state from the backward kernel given its successor. -/
def fwdProb (h : Hmm) : List (List Rat) → List Nat → Rat
  | [f], [x] => categorical f x
  | f :: f' :: fs, x :: x' :: xs =>
    categorical (backwardKernel h f x') x * fwdProb h (f' :: fs) (x' :: xs)
  | _, _ => 0

theorem backwardScan_reverse (h : Hmm) (f : List Rat) (fs : List (List Rat)) (x : Nat) (xs : List Nat)
    (hl : fs.length = xs.length) :
    backwardScan h 0 0 (f :: fs).reverse (x :: xs).reverse = fwdProb h (f :: fs) (x :: xs) := by
  induction fs generalizing f x xs with
  | nil =>
    cases xs with
    | nil => simp [backwardScan, fwdProb]
    | cons t S => simp at hl
  | cons f' fs ih =>
    cases xs with
    | nil => simp at hl
    | cons x' xs =>
      have hl' : fs.length = xs.length := by simpa using hl
      have e1 : (f :: f' :: fs).reverse = (f' :: fs).reverse ++ [f] := by simp
      have e2 : (x :: x' :: xs).reverse = (x' :: xs).reverse ++ [x] := by simp
      rw [e1, e2]
      -- expose the head of the reversed tails
      obtain ⟨g, G, hG⟩ : ∃ g G, (f' :: fs).reverse = g :: G := by
        cases hr : (f' :: fs).reverse with
        | nil => simp at hr
        | cons g G => exact ⟨g, G, rfl⟩
      obtain ⟨t, S, hS⟩ : ∃ t S, (x' :: xs).reverse = t :: S := by
        cases hr : (x' :: xs).reverse with
        | nil => simp at hr
        | cons t S => exact ⟨t, S, rfl⟩
      have hGS : G.length = S.length := by
        have a1 := congrArg List.length hG
        have a2 := congrArg List.length hS
        simp only [List.length_reverse, List.length_cons] at a1 a2
        omega
      have hlast : S.getLast?.getD t = x' := by
        have : (t :: S).getLast? = some x' := by rw [← hS]; simp
        cases S with
        | nil => simpa using this
        | cons u S => rw [List.getLast?_cons_cons] at this; simp [this]
      rw [hG, hS, backwardScan_zero_snoc h 0 g G t S hGS f x, hlast, ← hG, ← hS, ih f' x' xs hl']
      simp only [fwdProb]; ring

/-! ### the telescoping identity -/

theorem categorical_backwardKernel {h : Hmm} {m : Nat} (hp : h.pos m = true) {a : List Rat}
    (ha : PosOn h.n a) (hs : a.sum ≠ 0) {x x' : Nat} (hx : x < h.n) (hx' : x' < h.n) :
    categorical (backwardKernel h (normalise a) x') x =
      vget a x * mget h.trans x x' / ∑ b ∈ range h.n, vget a b * mget h.trans b x' := by
  have hden : (∑ b ∈ range h.n, vget a b * mget h.trans b x') ≠ 0 := (sum_trans_pos hp ha hx').ne'
  have hW : ((h.states.map fun b => vget (normalise a) b * mget h.trans b x')).sum
      = (∑ b ∈ range h.n, vget a b * mget h.trans b x') / a.sum := by
    unfold Hmm.states
    rw [sum_map_range, Finset.sum_div]
    exact Finset.sum_congr rfl fun b _ => by rw [vget_normalise]; ring
  have hW0 : ((h.states.map fun b => vget (normalise a) b * mget h.trans b x')).sum ≠ 0 := by
    rw [hW]; exact div_ne_zero hden hs
  unfold backwardKernel
  rw [categorical_normalise hW0, hW]
  unfold Hmm.states
  rw [vget_map_range _ hx, vget_normalise]
  field_simp

/-- Claim M: running the scan from carry `a`, the forward-order sampler probability times the
    final total mass is `a[x]` times the chain of transition/observation factors. -/
theorem fwdProb_telescope {v : Fwd} {h : Hmm} (hv : FwdOK v h) {m : Nat} (hp : h.pos m = true)
    (k : Nat) (a : List Rat) (ha : PosOn h.n a) (hlen : Len h.n a) (ys : List Nat)
    (hys : ∀ y ∈ ys, y < m) (x : Nat) (xs : List Nat) (hx : x < h.n) (hxs : ∀ z ∈ xs, z < h.n)
    (hl : xs.length = ys.length) :
    fwdProb h (normalise a :: (forwardScan v h (k + 1) a ys).map (·.2)) (x :: xs)
        * (finalAlpha v h a ys).sum = vget a x * chain h x xs ys := by
  have hs : a.sum ≠ 0 := by rw [hlen]; exact (sum_range_pos ha hx).ne'
  induction ys generalizing k a x xs with
  | nil =>
    cases xs with
    | cons _ _ => simp at hl
    | nil =>
      simp only [forwardScan, List.map_nil, fwdProb, finalAlpha, chain, mul_one]
      rw [categorical_normalise hs]; field_simp
  | cons y ys ih =>
    cases xs with
    | nil => simp at hl
    | cons x' xs =>
      have hx' : x' < h.n := hxs x' (by simp)
      have hy : y < m := hys y (by simp)
      have ha' := posOn_stepAlpha hv hp ha hy
      have hlen' := len_stepAlpha v h a y
      have hs' : (stepAlpha v h a y).sum ≠ 0 := by rw [hlen']; exact (sum_range_pos ha' hx').ne'
      rw [forwardScan_succ_cons, List.map_cons]
      simp only [fwdProb, finalAlpha, chain]
      have IH := ih (k + 1) (stepAlpha v h a y) ha' hlen' (fun z hz => hys z (by simp [hz])) x' xs hx'
        (fun z hz => hxs z (by simp [hz])) (by simpa using hl) hs'
      rw [mul_assoc, IH, categorical_backwardKernel hp ha hs hx hx', vget_stepAlpha hv a y hx']
      have hden : (∑ b ∈ range h.n, vget a b * mget h.trans b x') ≠ 0 := (sum_trans_pos hp ha hx').ne'
      field_simp

theorem posOn_finalAlpha {v : Fwd} {h : Hmm} (hv : FwdOK v h) {m : Nat} (hp : h.pos m = true)
    {a : List Rat} (ha : PosOn h.n a) {ys : List Nat} (hys : ∀ y ∈ ys, y < m) :
    PosOn h.n (finalAlpha v h a ys) := by
  induction ys generalizing a with
  | nil => exact ha
  | cons y ys ih =>
    exact ih (posOn_stepAlpha hv hp ha (hys y (by simp))) (fun z hz => hys z (by simp [hz]))

/-- `forwardTotal = dataLik` for a forward variant that reads the right transition entries. -/
theorem forwardTotal_eq_dataLik {v : Fwd} {h : Hmm} (hv : FwdOK v h) (ys : List Nat) :
    forwardTotal v h ys = dataLik h ys := by
  cases ys with
  | nil => simp [forwardTotal, alphas, forwardScan, dataLik, allSeqs, joint]
  | cons y ys =>
    rw [forwardTotal_cons, len_finalAlpha v h (len_initAlpha h h.init y) ys,
      ← forward_total_from hv, dataLik, sum_allSeqs]
    simp only [List.length_cons, seqSum, joint]
    refine Finset.sum_congr rfl fun x hx => ?_
    rw [vget_initAlpha h _ y (Finset.mem_range.mp hx), ← seqSum_mul_left]
    exact seqSum_congr _ _ fun xs => by ring

theorem dataLik_pos {h : Hmm} {m : Nat} (hp : h.pos m = true) (hn : 0 < h.n) {ys : List Nat}
    (hys : ∀ y ∈ ys, y < m) : 0 < dataLik h ys := by
  rw [← forwardTotal_eq_dataLik (fwdOK_textbook h)]
  cases ys with
  | nil => simp [forwardTotal, alphas, forwardScan]
  | cons y ys =>
    rw [forwardTotal_cons, len_finalAlpha _ h (len_initAlpha h h.init y) ys]
    exact sum_range_pos (posOn_finalAlpha (fwdOK_textbook h) hp
      (posOn_initAlpha hp (hys y (by simp))) (fun z hz => hys z (by simp [hz]))) hn

/-- FFBS (with a forward pass that reads the right entries) samples from the posterior. -/
theorem ffbsProb_eq_seqPosterior {v : Fwd} {h : Hmm} (hv : FwdOK v h) {m : Nat}
    (hp : h.pos m = true) {ys : List Nat} (hys : ∀ y ∈ ys, y < m) {seq : List Nat}
    (hseq : seq ∈ allSeqs h.n ys.length) : ffbsProb v h ys seq = seqPosterior h seq ys := by
  obtain ⟨hl, hr⟩ := mem_allSeqs.mp hseq
  unfold seqPosterior
  rw [scanJoint_eq_joint]
  cases ys with
  | nil =>
    cases seq with
    | cons _ _ => simp at hl
    | nil => simp [ffbsProb, filters, forwardScan, backwardScan, joint, dataLik, allSeqs]
  | cons y ys =>
    cases seq with
    | nil => simp at hl
    | cons x xs =>
      have hx : x < h.n := hr x (by simp)
      have hl' : xs.length = ys.length := by simpa using hl
      have hZ : dataLik h (y :: ys) ≠ 0 := (dataLik_pos hp (Nat.lt_of_le_of_lt (Nat.zero_le _) hx) hys).ne'
      unfold ffbsProb filters
      rw [forwardScan_zero_cons, List.map_cons,
        backwardScan_reverse h _ _ x xs (by simp [length_forwardScan, hl']), eq_div_iff hZ,
        ← forwardTotal_eq_dataLik hv, forwardTotal_cons,
        fwdProb_telescope hv hp 0 _ (posOn_initAlpha hp (hys y (by simp))) (len_initAlpha h _ y) ys
          (fun z hz => hys z (by simp [hz])) x xs hx (fun z hz => hr z (by simp [hz])) hl',
        vget_initAlpha h _ y hx]
      simp only [joint]; ring

/-! ### circulant structure of the configuration tensors -/

theorem getD_map_range {β : Type} (f : Nat → β) (d : β) {n i : Nat} (hi : i < n) :
    ((List.range n).map f).getD i d = f i := by
  simp [List.getD_eq_getElem?_getD, hi]

theorem mget_circulant (c : List Rat) {i j : Nat} (hi : i < c.length) (hj : j < c.length) :
    mget (circulant c) i j = vget c ((i + c.length - j) % c.length) := by
  unfold mget circulant
  rw [getD_map_range _ _ hi, vget_map_range _ hj]

/-- a circulant matrix whose first column satisfies `c[m] = c[N - m]` is symmetric -/
theorem circulant_symm (c : List Rat) (hc : ∀ m, 0 < m → m < c.length → vget c m = vget c (c.length - m))
    {i j : Nat} (hi : i < c.length) (hj : j < c.length) :
    mget (circulant c) i j = mget (circulant c) j i := by
  rw [mget_circulant c hi hj, mget_circulant c hj hi]
  rcases Nat.lt_trichotomy i j with hlt | heq | hgt
  · have e1 : (i + c.length - j) % c.length = c.length - (j - i) :=
      by rw [Nat.mod_eq_of_lt (by omega)]; omega
    have e2 : (j + c.length - i) % c.length = j - i := by
      have : j + c.length - i = (j - i) + c.length := by omega
      rw [this, Nat.add_mod_right, Nat.mod_eq_of_lt (by omega)]
    rw [e1, e2, ← hc (j - i) (by omega) (by omega)]
  · rw [heq]
  · have e1 : (j + c.length - i) % c.length = c.length - (i - j) :=
      by rw [Nat.mod_eq_of_lt (by omega)]; omega
    have e2 : (i + c.length - j) % c.length = i - j := by
      have : i + c.length - j = (i - j) + c.length := by omega
      rw [this, Nat.add_mod_right, Nat.mod_eq_of_lt (by omega)]
    rw [e1, e2, hc (i - j) (by omega) (by omega)]

theorem length_source (N k : Nat) (e d : Rat) : (source N k e d).length = N := by
  simp [source]

/-- `scaled_circulant`'s source is symmetric when the truncation does not wrap: `2 k ≤ N`. -/
theorem source_symm (N k : Nat) (e d : Rat) (hk : 2 * k ≤ N) {m : Nat} (h0 : 0 < m) (hm : m < N) :
    vget (source N k e d) m = vget (source N k e d) (N - m) := by
  unfold source
  rw [vget_map_range _ hm, vget_map_range _ (by omega : N - m < N)]
  by_cases h1 : m ≤ k
  · by_cases h2 : N - m ≤ k
    · have : N - m = m := by omega
      rw [this]; simp [h1]
    · have h3 : N ≤ N - m + k := by omega
      have : N - (N - m) = m := by omega
      simp [h1, h2, h3, this]
  · by_cases h2 : N ≤ m + k
    · have h3 : N - m ≤ k := by omega
      simp [h1, h2, h3]
    · have h3 : ¬ N - m ≤ k := by omega
      have h4 : ¬ N ≤ N - m + k := by omega
      simp [h1, h2, h3, h4]
