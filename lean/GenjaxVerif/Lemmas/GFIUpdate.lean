import GenjaxVerif.Lemmas.GFIShape
/-! The update weight law: `w = new score − old score` whenever no fresh trace is drawn
    (i.e. no switch is reached with its index tagged changed). -/
namespace GenjaxVerif.GFI
open GenjaxVerif

mutual
/-- `Safe ch p`: running an update of `p` with the "switch index changed" flag `ch` never takes
    `Switch.edit`'s fresh-trace path.  A scan forces the flag to true for its kernel. -/
def Safe : Bool → Prog → Prop
  | _, .dist _ => True
  | ch, .static b => SafeBody ch b
  | ch, .vmap p _ => Safe ch p
  | _, .scan p _ => Safe true p
  | ch, .switch ps => ch = false ∧ SafeL false ps
  | ch, .mask p => Safe ch p
  | ch, .dimap _ p _ => Safe ch p
def SafeL : Bool → List Prog → Prop
  | _, [] => True
  | ch, p :: ps => Safe ch p ∧ SafeL ch ps
def SafeBody : Bool → Body → Prop
  | _, .ret _ => True
  | ch, .bind _ p _ rest => Safe ch p ∧ SafeBody ch rest
end

theorem safeL_nth : ∀ {ps : List Prog} {k : Nat} {ch}, SafeL ch ps → ∀ {p}, ps[k]? = some p → Safe ch p
  | [], _, _, _, _, h => by simp at h
  | p :: _, 0, _, hs, q, h => by simp at h; subst h; exact hs.1
  | _ :: ps, k + 1, _, hs, q, h => by simp at h; exact safeL_nth hs.2 h

theorem leaf_upd_w {ds d i r told} (h : leaf ds .upd d i = .ok r) (ho : i.old = some told) :
    r.w = r.tr.score - told.score := by
  unfold leaf at h
  simp only [bind_ok, oldOf, ho] at h
  obtain ⟨t, ht, h2⟩ := h
  simp at ht; subst ht
  split at h2
  · split at h2 <;> simp at h2 <;> subst h2 <;> simp [Trace.score]
  · simp at h2

theorem bindIn_upd {i olds st addr a i'} (h : bindIn .upd i olds st addr a = .ok i') :
    lookupSub st.subs addr = none ∧ ∃ t, lookupSub olds addr = some t ∧ i'.old = some t ∧ i'.changed = i.changed := by
  unfold bindIn at h
  split at h
  · simp at h
  · rename_i hn
    have hn : lookupSub st.subs addr = none := by
      cases hl : lookupSub st.subs addr with
      | none => rfl
      | some t => simp [hl] at hn
    refine ⟨hn, ?_⟩
    split at h
    · simp at h
    · simp only [bindOld] at h
      cases hl : lookupSub olds addr with
      | none => simp [hl] at h
      | some t =>
        simp [hl] at h; subst h
        exact ⟨t, rfl, rfl, rfl⟩

mutual
theorem upd_w (ds : DistSem) : ∀ (p : Prog) (i : In) (r : Res) (told : Trace),
    run ds .upd p i = .ok r → i.old = some told → Shape p told → Safe i.changed p →
    r.w = r.tr.score - told.score
  | .dist d, i, r, told, h, ho, _, _ => by simp only [run] at h; exact leaf_upd_w h ho
  | .static b, i, r, told, h, ho, hs, hsafe => by
    simp only [run, staticRun, bind_ok, pure_ok] at h
    obtain ⟨env, _, olds, h2, ⟨st, v⟩, h3, rfl⟩ := h
    cases told <;> simp only [Shape] at hs
    rename_i targs tret tsubs
    simp [staticOlds, ho] at h2; subst h2
    have := upd_w_body ds b i tsubs env {} st v [] tsubs h3 (by simp) hs (by simp) (by simp [Trace.scoreAL]) hsafe
    simpa [Trace.score] using this
  | .vmap p axes, i, r, told, h, ho, hs, hsafe => by
    simp only [run, vmapRun, bind_ok, pure_ok] at h
    obtain ⟨as, _, n, _, _, hlen, rs, h3, rfl⟩ := h
    cases told <;> simp only [Shape] at hs
    rename_i targs tret elems
    simp [checkOldLen, ho] at hlen
    have hl := vmapLoop_length h3
    simp only [vecRes, Trace.score]
    refine sumW_sub (by omega) ?_
    intro j h1 h2
    have hj := vmapLoop_get h3 j h1
    simp only [bind_ok, Nat.zero_add] at hj
    obtain ⟨i', hi', hr⟩ := hj
    simp only [vmapElem, bind_ok, pure_ok] at hi'
    obtain ⟨ea, _, o, ho', rfl⟩ := hi'
    simp [nthOld, ho, List.getElem?_eq_getElem h2] at ho'
    subst ho'
    exact upd_w ds p _ _ elems[j] hr rfl (hs _ (List.getElem_mem h2)) hsafe
  | .scan p len, i, r, told, h, ho, hs, hsafe => by
    simp only [run, scanRun, bind_ok, pure_ok] at h
    obtain ⟨⟨carry, xs⟩, _, _, hlen, ⟨rs, fin⟩, h3, ys, _, rfl⟩ := h
    cases told <;> simp only [Shape] at hs
    rename_i targs tret elems
    simp [checkOldLen, ho] at hlen
    dsimp only at hlen h3
    obtain ⟨hl, hg⟩ := scanLoop_get h3
    simp only [vecRes, Trace.score]
    refine sumW_sub (by omega) ?_
    intro j h1 h2
    obtain ⟨key', c', hj⟩ := hg j h1 (by omega)
    simp only [bind_ok, Nat.zero_add] at hj
    obtain ⟨i', hi', hr⟩ := hj
    simp only [scanElem, bind_ok, pure_ok] at hi'
    obtain ⟨o, ho', rfl⟩ := hi'
    simp [nthOld, ho, List.getElem?_eq_getElem h2] at ho'
    subst ho'
    exact upd_w ds p _ _ elems[j] hr rfl (hs _ (List.getElem_mem h2)) (by simpa [Safe] using hsafe)
  | .switch ps, i, r, told, h, ho, hs, hsafe => by
    simp only [run, switchRun, bind_ok] at h
    obtain ⟨⟨idx, ba⟩, _, h2⟩ := h
    cases told <;> simp only [Shape] at hs
    rename_i targs oidx osub
    simp only [Safe] at hsafe
    simp only [ho, hsafe.1] at h2
    simp only [Bool.false_eq_true, if_false] at h2
    split at h2
    · simp at h2
    · rename_i hne
      simp only [bind_ok, pure_ok] at h2
      obtain ⟨r', h4, rfl⟩ := h2
      have hidx : oidx = idx := by simpa using hne
      subst hidx
      simp only [Trace.score]
      exact upd_w_nth ds ps oidx _ r' osub h4 rfl hs (by simpa [hsafe.1] using hsafe.2)
  | .mask p, i, r, told, h, ho, hs, hsafe => by
    simp only [run, maskRun, bind_ok] at h
    obtain ⟨⟨check, iargs⟩, _, h2⟩ := h
    cases told <;> simp only [Shape] at hs
    rename_i pre inner
    simp only [ho, bind_ok, pure_ok] at h2
    obtain ⟨r', h4, rfl⟩ := h2
    have := upd_w ds p _ r' inner h4 rfl hs (by simpa [Safe] using hsafe)
    cases pre <;> cases check <;> simp [Trace.score, this]
  | .dimap pre p post, i, r, told, h, ho, hs, hsafe => by
    simp only [run, dimapRun, bind_ok, pure_ok] at h
    obtain ⟨as, _, ia, _, o, ho', r', h4, rv, _, rfl⟩ := h
    cases told <;> simp only [Shape] at hs
    rename_i targs tret inner
    simp [dimapOld, ho] at ho'; subst ho'
    simp only [Trace.score]
    exact upd_w ds p _ r' inner h4 rfl hs (by simpa [Safe] using hsafe)

theorem upd_w_nth (ds : DistSem) : ∀ (ps : List Prog) (k : Nat) (i : In) (r : Res) (told : Trace),
    runNth ds .upd ps k i = .ok r → i.old = some told → ShapeNth ps k told → SafeL i.changed ps →
    r.w = r.tr.score - told.score
  | [], _, _, _, _, h, _, _, _ => by simp [runNth] at h
  | p :: _, 0, i, r, told, h, ho, hs, hsafe => by
    simp only [runNth] at h; exact upd_w ds p i r told h ho (by simpa [ShapeNth] using hs) hsafe.1
  | _ :: ps, k + 1, i, r, told, h, ho, hs, hsafe => by
    simp only [runNth] at h; exact upd_w_nth ds ps k i r told h ho (by simpa [ShapeNth] using hs) hsafe.2

theorem upd_w_body (ds : DistSem) : ∀ (b : Body) (i : In) (olds env) (st st' : SState) (v : Val)
    (pre suf : List (List String × Trace)),
    runBody ds .upd b i olds env st = .ok (st', v) → olds = pre ++ suf → ShapeBody b suf →
    st.subs.map (·.1) = pre.map (·.1) → st.w = Trace.scoreAL st.subs - Trace.scoreAL pre →
    SafeBody i.changed b →
    st'.w = Trace.scoreAL st'.subs - Trace.scoreAL olds
  | .ret e, i, olds, env, st, st', v, pre, suf, h, ho, hs, _, hw, _ => by
    simp only [runBody, bind_ok, pure_ok] at h
    obtain ⟨_, _, h2⟩ := h
    simp at h2; obtain ⟨rfl, _⟩ := h2
    simp only [ShapeBody] at hs
    subst hs; simpa [ho] using hw
  | .bind addr p aes rest, i, olds, env, st, st', v, pre, suf, h, ho, hs, hk, hw, hsafe => by
    simp only [runBody, bind_ok] at h
    obtain ⟨a, _, i', hi', r, h3, h4⟩ := h
    cases suf with
    | nil => simp [ShapeBody] at hs
    | cons x suf' =>
      obtain ⟨xa, t⟩ := x
      simp only [ShapeBody] at hs
      obtain ⟨rfl, hst, hrest⟩ := hs
      obtain ⟨hn, t', hl, hio, hch⟩ := bindIn_upd hi'
      have hl' : lookupSub olds xa = some t := by
        rw [ho]; exact lookupSub_append_hit (lookupSub_none_of_keys hk hn)
      rw [hl'] at hl; cases hl
      have hr := upd_w ds p i' r t h3 hio hst (by rw [hch]; exact hsafe.1)
      refine upd_w_body ds rest i olds _ _ st' v (pre ++ [(xa, t)]) suf' h4 (by simp [ho]) hrest
        (by simp [bindOut, hk]) ?_ hsafe.2
      simp only [bindOut, scoreAL_append, Trace.scoreAL, hw, hr]
      omega
end

/-! ### the same law for `Regenerate` -/

theorem leaf_regen_w {ds d i r told} (h : leaf ds .regen d i = .ok r) (ho : i.old = some told) :
    r.w = r.tr.score - told.score := by
  unfold leaf at h
  simp only [bind_ok, oldOf, ho] at h
  obtain ⟨t, ht, h2⟩ := h
  simp at ht; subst ht
  split at h2
  · split at h2 <;> simp at h2 <;> subst h2 <;> simp [Trace.score]
  · simp at h2

theorem bindIn_regen {i olds st addr a i'} (h : bindIn .regen i olds st addr a = .ok i') :
    lookupSub st.subs addr = none ∧ ∃ t, lookupSub olds addr = some t ∧ i'.old = some t ∧ i'.changed = i.changed := by
  unfold bindIn at h
  split at h
  · simp at h
  · rename_i hn
    have hn : lookupSub st.subs addr = none := by
      cases hl : lookupSub st.subs addr with
      | none => rfl
      | some t => simp [hl] at hn
    refine ⟨hn, ?_⟩
    split at h
    · simp at h
    · simp only [bindOld] at h
      cases hl : lookupSub olds addr with
      | none => simp [hl] at h
      | some t =>
        simp [hl] at h; subst h
        exact ⟨t, rfl, rfl, rfl⟩

mutual
theorem regen_w (ds : DistSem) : ∀ (p : Prog) (i : In) (r : Res) (told : Trace),
    run ds .regen p i = .ok r → i.old = some told → Shape p told →
    r.w = r.tr.score - told.score
  | .dist d, i, r, told, h, ho, _ => by simp only [run] at h; exact leaf_regen_w h ho
  | .static b, i, r, told, h, ho, hs => by
    simp only [run, staticRun, bind_ok, pure_ok] at h
    obtain ⟨env, _, olds, h2, ⟨st, v⟩, h3, rfl⟩ := h
    cases told <;> simp only [Shape] at hs
    rename_i targs tret tsubs
    simp [staticOlds, ho] at h2; subst h2
    have := regen_w_body ds b i tsubs env {} st v [] tsubs h3 (by simp) hs (by simp) (by simp [Trace.scoreAL])
    simpa [Trace.score] using this
  | .vmap p axes, i, r, told, h, ho, hs => by
    simp only [run, vmapRun, bind_ok, pure_ok] at h
    obtain ⟨as, _, n, _, _, hlen, rs, h3, rfl⟩ := h
    cases told <;> simp only [Shape] at hs
    rename_i targs tret elems
    simp [checkOldLen, ho] at hlen
    have hl := vmapLoop_length h3
    simp only [vecRes, Trace.score]
    refine sumW_sub (by omega) ?_
    intro j h1 h2
    have hj := vmapLoop_get h3 j h1
    simp only [bind_ok, Nat.zero_add] at hj
    obtain ⟨i', hi', hr⟩ := hj
    simp only [vmapElem, bind_ok, pure_ok] at hi'
    obtain ⟨ea, _, o, ho', rfl⟩ := hi'
    simp [nthOld, ho, List.getElem?_eq_getElem h2] at ho'
    subst ho'
    exact regen_w ds p _ _ elems[j] hr rfl (hs _ (List.getElem_mem h2))
  | .scan p len, i, r, told, h, ho, hs => by
    simp only [run, scanRun, bind_ok, pure_ok] at h
    obtain ⟨⟨carry, xs⟩, _, _, hlen, ⟨rs, fin⟩, h3, ys, _, rfl⟩ := h
    cases told <;> simp only [Shape] at hs
    rename_i targs tret elems
    simp [checkOldLen, ho] at hlen
    dsimp only at hlen h3
    obtain ⟨hl, hg⟩ := scanLoop_get h3
    simp only [vecRes, Trace.score]
    refine sumW_sub (by omega) ?_
    intro j h1 h2
    obtain ⟨key', c', hj⟩ := hg j h1 (by omega)
    simp only [bind_ok, Nat.zero_add] at hj
    obtain ⟨i', hi', hr⟩ := hj
    simp only [scanElem, bind_ok, pure_ok] at hi'
    obtain ⟨o, ho', rfl⟩ := hi'
    simp [nthOld, ho, List.getElem?_eq_getElem h2] at ho'
    subst ho'
    exact regen_w ds p _ _ elems[j] hr rfl (hs _ (List.getElem_mem h2))
  | .switch ps, i, r, told, h, ho, hs => by
    simp only [run, switchRun, bind_ok] at h
    obtain ⟨⟨idx, ba⟩, _, h2⟩ := h
    simp at h2
  | .mask p, i, r, told, h, ho, hs => by
    simp only [run, maskRun, bind_ok] at h
    obtain ⟨⟨check, iargs⟩, _, h2⟩ := h
    simp at h2
  | .dimap pre p post, i, r, told, h, ho, hs => by
    simp only [run, dimapRun, bind_ok, pure_ok] at h
    obtain ⟨as, _, ia, _, o, ho', r', h4, rv, _, rfl⟩ := h
    cases told <;> simp only [Shape] at hs
    rename_i targs tret inner
    simp [dimapOld, ho] at ho'; subst ho'
    simp only [Trace.score]
    exact regen_w ds p _ r' inner h4 rfl hs

theorem regen_w_nth (ds : DistSem) : ∀ (ps : List Prog) (k : Nat) (i : In) (r : Res) (told : Trace),
    runNth ds .regen ps k i = .ok r → i.old = some told → ShapeNth ps k told →
    r.w = r.tr.score - told.score
  | [], _, _, _, _, h, _, _ => by simp [runNth] at h
  | p :: _, 0, i, r, told, h, ho, hs => by
    simp only [runNth] at h; exact regen_w ds p i r told h ho (by simpa [ShapeNth] using hs)
  | _ :: ps, k + 1, i, r, told, h, ho, hs => by
    simp only [runNth] at h; exact regen_w_nth ds ps k i r told h ho (by simpa [ShapeNth] using hs)

theorem regen_w_body (ds : DistSem) : ∀ (b : Body) (i : In) (olds env) (st st' : SState) (v : Val)
    (pre suf : List (List String × Trace)),
    runBody ds .regen b i olds env st = .ok (st', v) → olds = pre ++ suf → ShapeBody b suf →
    st.subs.map (·.1) = pre.map (·.1) → st.w = Trace.scoreAL st.subs - Trace.scoreAL pre →
    st'.w = Trace.scoreAL st'.subs - Trace.scoreAL olds
  | .ret e, i, olds, env, st, st', v, pre, suf, h, ho, hs, _, hw => by
    simp only [runBody, bind_ok, pure_ok] at h
    obtain ⟨_, _, h2⟩ := h
    simp at h2; obtain ⟨rfl, _⟩ := h2
    simp only [ShapeBody] at hs
    subst hs; simpa [ho] using hw
  | .bind addr p aes rest, i, olds, env, st, st', v, pre, suf, h, ho, hs, hk, hw => by
    simp only [runBody, bind_ok] at h
    obtain ⟨a, _, i', hi', r, h3, h4⟩ := h
    cases suf with
    | nil => simp [ShapeBody] at hs
    | cons x suf' =>
      obtain ⟨xa, t⟩ := x
      simp only [ShapeBody] at hs
      obtain ⟨rfl, hst, hrest⟩ := hs
      obtain ⟨hn, t', hl, hio, hch⟩ := bindIn_regen hi'
      have hl' : lookupSub olds xa = some t := by
        rw [ho]; exact lookupSub_append_hit (lookupSub_none_of_keys hk hn)
      rw [hl'] at hl; cases hl
      have hr := regen_w ds p i' r t h3 hio hst
      refine regen_w_body ds rest i olds _ _ st' v (pre ++ [(xa, t)]) suf' h4 (by simp [ho]) hrest
        (by simp [bindOut, hk]) ?_
      simp only [bindOut, scoreAL_append, Trace.scoreAL, hw, hr]
      omega
end


end GenjaxVerif.GFI
