import GenjaxVerif.Lemmas.GFIBasic
/-! Choice-map algebra: sub-maps of prefixed / concatenated / masked maps. -/
namespace GenjaxVerif.GFI
open GenjaxVerif

namespace CMap

theorem sub_append (a b : CMap) (k : Comp) : CMap.sub (a ++ b) k = CMap.sub a k ++ CMap.sub b k := by
  simp [sub, List.filterMap_append]

@[simp] theorem sub_nil (k : Comp) : CMap.sub [] k = [] := rfl

theorem sub_cons_hit (k : Comp) (q : Path) (v : CVal) (c : CMap) :
    CMap.sub ((k :: q, v) :: c) k = (q, v) :: CMap.sub c k := by
  simp [sub, List.filterMap_cons]

theorem sub_cons_miss {k k' : Comp} (h : k' ≠ k) (q : Path) (v : CVal) (c : CMap) :
    CMap.sub ((k' :: q, v) :: c) k = CMap.sub c k := by
  simp [sub, List.filterMap_cons, h]

theorem sub_cons_nil (k : Comp) (v : CVal) (c : CMap) : CMap.sub (([], v) :: c) k = CMap.sub c k := by
  simp [sub, List.filterMap_cons]

theorem pre_cons_entry (ks p : Path) (v : CVal) (c : CMap) : pre ks ((p, v) :: c) = (ks ++ p, v) :: pre ks c := rfl

theorem subStatic_append (a b : CMap) (addr : List String) :
    CMap.subStatic (a ++ b) addr = CMap.subStatic a addr ++ CMap.subStatic b addr := by
  induction addr generalizing a b with
  | nil => rfl
  | cons x xs ih => simp only [subStatic, List.foldl_cons] at *; rw [sub_append]; exact ih _ _

@[simp] theorem subStatic_nil (addr : List String) : CMap.subStatic [] addr = [] := by
  induction addr with
  | nil => rfl
  | cons x xs ih => simpa [subStatic] using ih

@[simp] theorem pre_nil_path (c : CMap) : pre [] c = c := by
  simp [pre]

@[simp] theorem pre_nil (ks : Path) : pre ks ([] : CMap) = [] := rfl

theorem pre_cons (k : Comp) (ks : Path) (c : CMap) : pre (k :: ks) c = pre [k] (pre ks c) := by
  simp [pre, List.map_map, Function.comp_def]

theorem sub_pre_same (k : Comp) (c : CMap) : CMap.sub (pre [k] c) k = c := by
  induction c with
  | nil => rfl
  | cons x xs ih =>
    obtain ⟨p, v⟩ := x
    rw [pre_cons_entry]
    show CMap.sub ((k :: p, v) :: pre [k] xs) k = _
    rw [sub_cons_hit, ih]

theorem sub_pre_ne {k k' : Comp} (h : k' ≠ k) (c : CMap) : CMap.sub (pre [k'] c) k = [] := by
  induction c with
  | nil => rfl
  | cons x xs ih =>
    obtain ⟨p, v⟩ := x
    rw [pre_cons_entry]
    show CMap.sub ((k' :: p, v) :: pre [k'] xs) k = _
    rw [sub_cons_miss h, ih]

/-- Neither address is a prefix of the other. -/
def Incomp (a b : List String) : Prop := ¬ a <+: b ∧ ¬ b <+: a

theorem subStatic_pre_same (addr : List String) (c : CMap) :
    CMap.subStatic (pre (addr.map Comp.s) c) addr = c := by
  induction addr with
  | nil => simp [subStatic]
  | cons x xs ih =>
    rw [List.map_cons, pre_cons]
    simp only [subStatic, List.foldl_cons]
    rw [sub_pre_same]
    exact ih

theorem subStatic_pre_incomp : ∀ (a b : List String), Incomp a b → ∀ (c : CMap),
    CMap.subStatic (pre (b.map Comp.s) c) a = []
  | [], b, h, _ => by exact absurd (List.nil_prefix) h.1
  | _ :: _, [], h, _ => by exact absurd (List.nil_prefix) h.2
  | x :: a, y :: b, h, c => by
    rw [List.map_cons, pre_cons]
    simp only [subStatic, List.foldl_cons]
    by_cases hxy : x = y
    · subst hxy
      rw [sub_pre_same]
      refine subStatic_pre_incomp a b ⟨fun hp => h.1 ?_, fun hp => h.2 ?_⟩ c
      · exact (List.cons_prefix_cons).2 ⟨rfl, hp⟩
      · exact (List.cons_prefix_cons).2 ⟨rfl, hp⟩
    · rw [sub_pre_ne (by simpa using fun h' => hxy h'.symm)]
      exact subStatic_nil a

/-! masking commutes with navigation -/

theorem maskAll_cons (f : Bool) (p : Path) (v : CVal) (c : CMap) :
    maskAll f ((p, v) :: c) = (p, v.mask f) :: maskAll f c := rfl

theorem sub_maskAll (f : Bool) (c : CMap) (k : Comp) : CMap.sub (maskAll f c) k = maskAll f (CMap.sub c k) := by
  induction c with
  | nil => rfl
  | cons x xs ih =>
    obtain ⟨p, v⟩ := x
    rw [maskAll_cons]
    cases p with
    | nil => rw [sub_cons_nil, sub_cons_nil, ih]
    | cons k' q =>
      by_cases hk : k' = k
      · subst hk; rw [sub_cons_hit, sub_cons_hit, maskAll_cons, ih]
      · rw [sub_cons_miss hk, sub_cons_miss hk, ih]

theorem subStatic_maskAll (f : Bool) (c : CMap) (addr : List String) :
    CMap.subStatic (maskAll f c) addr = maskAll f (CMap.subStatic c addr) := by
  induction addr generalizing c with
  | nil => rfl
  | cons x xs ih => simp only [subStatic, List.foldl_cons] at *; rw [sub_maskAll]; exact ih _

theorem leaf_maskAll (f : Bool) (c : CMap) : CMap.leaf (maskAll f c) = (CMap.leaf c).map (CVal.mask f) := by
  induction c with
  | nil => rfl
  | cons x xs ih =>
    obtain ⟨p, v⟩ := x
    simp only [maskAll, leaf, List.map_cons, List.find?_cons] at ih ⊢
    cases p with
    | nil => simp
    | cons k q => simpa using ih

@[simp] theorem isEmpty_maskAll (f : Bool) (c : CMap) : List.isEmpty (maskAll f c) = List.isEmpty c := by
  cases c <;> rfl

@[simp] theorem maskAll_nil (f : Bool) : maskAll f ([] : CMap) = [] := rfl

end CMap
end GenjaxVerif.GFI

namespace GenjaxVerif.GFI
open GenjaxVerif CMap

theorem choicesAL_cons (a : List String) (t : Trace) (rest : List (List String × Trace)) :
    Trace.choicesAL ((a, t) :: rest) = CMap.pre (a.map Comp.s) t.choices ++ Trace.choicesAL rest := by
  simp [Trace.choicesAL]

theorem choicesL_cons (k : Nat) (t : Trace) (ts : List Trace) :
    Trace.choicesL k (t :: ts) = CMap.pre [.i k] t.choices ++ Trace.choicesL (k + 1) ts := by
  simp [Trace.choicesL]

theorem choicesAL_append (a b : List (List String × Trace)) :
    Trace.choicesAL (a ++ b) = Trace.choicesAL a ++ Trace.choicesAL b := by
  induction a with
  | nil => simp [Trace.choicesAL]
  | cons x xs ih => obtain ⟨k, t⟩ := x; simp [choicesAL_cons, ih]

/-- No recorded address is comparable with `a` ⇒ the sub-map at `a` is empty. -/
theorem subStatic_choicesAL_none (a : List String) :
    ∀ (subs : List (List String × Trace)), (∀ x ∈ subs, Incomp a x.1) →
      CMap.subStatic (Trace.choicesAL subs) a = []
  | [], _ => by simp [Trace.choicesAL]
  | (b, u) :: rest, h => by
    rw [choicesAL_cons, subStatic_append, subStatic_pre_incomp a b (h (b, u) (by simp)),
      subStatic_choicesAL_none a rest (fun x hx => h x (by simp [hx]))]
    rfl

theorem incomp_symm {a b : List String} (h : Incomp a b) : Incomp b a := ⟨h.2, h.1⟩

/-- With pairwise incomparable addresses, the sub-map of a static trace's choices at a
    recorded address is exactly that subtrace's choices. -/
theorem subStatic_choicesAL :
    ∀ (subs : List (List String × Trace)), (subs.map (·.1)).Pairwise Incomp →
      ∀ a t, (a, t) ∈ subs → CMap.subStatic (Trace.choicesAL subs) a = t.choices
  | [], _, _, _, h => by simp at h
  | (b, u) :: rest, hp, a, t, hm => by
    simp only [List.map_cons, List.pairwise_cons] at hp
    rw [choicesAL_cons, subStatic_append]
    simp only [List.mem_cons, Prod.mk.injEq] at hm
    rcases hm with ⟨rfl, rfl⟩ | hm
    · rw [subStatic_pre_same, subStatic_choicesAL_none a rest]
      · simp
      · intro x hx
        exact hp.1 x.1 (by simp; exact ⟨x.2, hx⟩)
    · have hinc : Incomp a b := incomp_symm (hp.1 a (by simp; exact ⟨t, hm⟩))
      rw [subStatic_pre_incomp a b hinc, subStatic_choicesAL rest hp.2 a t hm]
      rfl

theorem sub_choicesL_lt : ∀ (ts : List Trace) (k j : Nat), j < k → CMap.sub (Trace.choicesL k ts) (.i j) = []
  | [], _, _, _ => by simp [Trace.choicesL]
  | t :: ts, k, j, h => by
    rw [choicesL_cons, sub_append, sub_pre_ne (by simp; omega), sub_choicesL_lt ts (k + 1) j (by omega)]
    rfl

theorem sub_choicesL : ∀ (ts : List Trace) (k j : Nat) (h : j < ts.length),
    CMap.sub (Trace.choicesL k ts) (.i (k + j)) = ts[j].choices
  | [], _, _, h => by simp at h
  | t :: ts, k, 0, _ => by
    rw [choicesL_cons, sub_append, Nat.add_zero, sub_pre_same, sub_choicesL_lt ts (k + 1) k (by omega)]
    simp
  | t :: ts, k, j + 1, h => by
    rw [choicesL_cons, sub_append, sub_pre_ne (by simp)]
    have := sub_choicesL ts (k + 1) j (by simpa using h)
    simp only [List.nil_append, List.getElem_cons_succ]
    rw [← this]
    congr 2
    omega

end GenjaxVerif.GFI
