import GenjaxVerif.Model.Mask
/-! Helper lemmas for model B (flags, masks, staging helpers).
    Property theorems live in `Props/C19.lean` and `Props/C20.lean`. -/
namespace GenjaxVerif.MaskModel

/-- Decidable equality of results (used only by the concrete `example`s / witnesses). -/
instance instDecEqExcept {ε β} [DecidableEq ε] [DecidableEq β] : DecidableEq (Except ε β)
  | .ok a, .ok b => if h : a = b then isTrue (by rw [h]) else isFalse (fun e => h (Except.ok.inj e))
  | .error a, .error b =>
    if h : a = b then isTrue (by rw [h]) else isFalse (fun e => h (Except.error.inj e))
  | .ok _, .error _ => isFalse (fun e => nomatch e)
  | .error _, .ok _ => isFalse (fun e => nomatch e)

/-! ### FlagOp: truth value and concreteness of every operation -/
namespace Flag

@[simp] theorem val_and (f g : Flag) : (Flag.and f g).val = (f.val && g.val) := by
  cases f <;> cases g <;> rfl
@[simp] theorem val_or (f g : Flag) : (Flag.or f g).val = (f.val || g.val) := by
  cases f <;> cases g <;> rfl
@[simp] theorem val_xor (f g : Flag) : (Flag.xor f g).val = (f.val ^^ g.val) := by
  cases f <;> cases g <;> rfl
@[simp] theorem val_not (f : Flag) : (Flag.not f).val = !f.val := by
  cases f with
  | conc b => cases b <;> rfl
  | dyn b => rfl

@[simp] theorem isConc_and (f g : Flag) : (Flag.and f g).isConc = (f.isConc && g.isConc) := by
  cases f <;> cases g <;> rfl
@[simp] theorem isConc_or (f g : Flag) : (Flag.or f g).isConc = (f.isConc && g.isConc) := by
  cases f <;> cases g <;> rfl
@[simp] theorem isConc_xor (f g : Flag) : (Flag.xor f g).isConc = (f.isConc && g.isConc) := by
  cases f <;> cases g <;> rfl
@[simp] theorem isConc_not (f : Flag) : (Flag.not f).isConc = f.isConc := by
  cases f with
  | conc b => cases b <;> rfl
  | dyn b => rfl

theorem eq_of_val_isConc {f g : Flag} (h1 : f.val = g.val) (h2 : f.isConc = g.isConc) : f = g := by
  cases f <;> cases g <;> simp_all [val, isConc]

end Flag

/-! ### `_or_idx` and `pick` -/
namespace Mask
variable {α : Type}

theorem orIdx_eq (f g : Flag) :
    orIdx f g = if f.val then 0 else if g.val then 1 else -1 := by
  cases f with
  | conc a => cases g with
    | conc b => cases a <;> cases b <;> decide
    | dyn b => cases a <;> cases b <;> decide
  | dyn a => cases g with
    | conc b => cases a <;> cases b <;> decide
    | dyn b => cases a <;> cases b <;> decide

@[simp] theorem pick_zero (x y : α) : pick 0 x y = x := rfl
@[simp] theorem pick_one (x y : α) : pick 1 x y = y := rfl
@[simp] theorem pick_neg_one (x y : α) : pick (-1) x y = y := rfl

/-- `jnp.choose` with the `_or_idx` index: first if valid, else second. -/
theorem pick_orIdx (f g : Flag) (x y : α) : pick (orIdx f g) x y = if f.val then x else y := by
  rw [orIdx_eq]
  cases f.val <;> cases g.val <;> rfl

/-- `pick` is `treeChoose` with a traced index on two choices. -/
theorem treeChoose_two (i : Int) (x y : α) : treeChoose (.dyn i) [x, y] = .ok (pick i x y) := rfl

/-- The partial XOR on observations. -/
def xorObs : Option α → Option α → Option α
  | some x, Option.none => some x
  | Option.none, some y => some y
  | _, _ => Option.none

theorem flag_or (a b : Mask α) : (Mask.or a b).flag.val = (a.flag.val || b.flag.val) := by
  obtain ⟨va, fa⟩ := a
  obtain ⟨vb, fb⟩ := b
  cases fa with
  | conc x => cases x <;> simp [Mask.or, Flag.val]
  | dyn x =>
    simp only [Mask.or, pick_orIdx]
    cases x <;> simp [Flag.val]

theorem obs_or (a b : Mask α) : (Mask.or a b).obs = (a.obs).or b.obs := by
  obtain ⟨va, fa⟩ := a
  obtain ⟨vb, fb⟩ := b
  cases fa with
  | conc x => cases x <;> rfl
  | dyn x =>
    simp only [Mask.or, Mask.obs, pick_orIdx]
    cases x <;> cases fb.val <;> rfl

theorem flag_xor (a b : Mask α) : (Mask.xor a b).flag.val = (a.flag.val ^^ b.flag.val) := by
  obtain ⟨va, fa⟩ := a
  obtain ⟨vb, fb⟩ := b
  cases fa with
  | conc x => cases fb with
    | conc y => cases x <;> cases y <;> rfl
    | dyn y => cases x <;> rfl
  | dyn x => cases fb <;> rfl

theorem obs_xor (a b : Mask α) : (Mask.xor a b).obs = xorObs a.obs b.obs := by
  obtain ⟨va, fa⟩ := a
  obtain ⟨vb, fb⟩ := b
  cases fa with
  | conc x => cases fb with
    | conc y => cases x <;> cases y <;> rfl
    | dyn y => cases x <;> cases y <;> rfl
  | dyn x => cases fb with
    | conc y => cases x <;> cases y <;> rfl
    | dyn y => cases x <;> cases y <;> rfl

theorem obs_build_mask (m : Mask α) (f : Flag) :
    (build (.mask m) f).obs = if f.val then m.obs else Option.none := by
  obtain ⟨v, g⟩ := m
  simp only [build, obs, Flag.val_and]
  cases f.val <;> cases g.val <;> rfl

theorem obs_flatten (m : Mask α) : (flatten m).obs = m.obs := by
  obtain ⟨v, f⟩ := m
  cases f with
  | conc b => cases b <;> rfl
  | dyn b => rfl

theorem obs_congr {a a' : Mask α} (hv : a.value = a'.value) (hf : a.flag.val = a'.flag.val) :
    a.obs = a'.obs := by
  simp [obs, hv, hf]

theorem obs_foldl_or (ms : List (Mask α)) (m : Mask α) :
    (ms.foldl Mask.or m).obs = ms.foldl (fun acc x => acc.or x.obs) m.obs := by
  induction ms generalizing m with
  | nil => rfl
  | cons x xs ih => simp only [List.foldl_cons]; rw [ih, obs_or]

theorem obs_foldl_xor (ms : List (Mask α)) (m : Mask α) :
    (ms.foldl Mask.xor m).obs = ms.foldl (fun acc x => xorObs acc x.obs) m.obs := by
  induction ms generalizing m with
  | nil => rfl
  | cons x xs ih => simp only [List.foldl_cons]; rw [ih, obs_xor]

theorem flag_foldl_xor (ms : List (Mask α)) (m : Mask α) :
    (ms.foldl Mask.xor m).flag.val = ms.foldl (fun acc x => acc ^^ x.flag.val) m.flag.val := by
  induction ms generalizing m with
  | nil => rfl
  | cons x xs ih => simp only [List.foldl_cons]; rw [ih, flag_xor]

theorem flag_foldl_or (ms : List (Mask α)) (m : Mask α) :
    (ms.foldl Mask.or m).flag.val = ms.foldl (fun acc x => acc || x.flag.val) m.flag.val := by
  induction ms generalizing m with
  | nil => rfl
  | cons x xs ih => simp only [List.foldl_cons]; rw [ih, flag_or]

end Mask

/-! ### `tree_choose`: Python `%` and wrap-around agree, and land inside the list -/

theorem pyMod_eq_emod (i : Int) (n : Nat) : pyMod i n = i % (n : Int) :=
  Int.fmod_eq_emod_of_nonneg i (Int.natCast_nonneg n)

theorem emod_toNat_lt (i : Int) {n : Nat} (hn : 0 < n) : (i % (n : Int)).toNat < n := by
  have h0 : 0 ≤ i % (n : Int) := Int.emod_nonneg i (by omega)
  have h1 : i % (n : Int) < n := Int.emod_lt_of_pos i (by omega)
  omega

theorem treeChoose_eq {α} (idx : Idx) (vs : List α) (h : vs ≠ []) :
    treeChoose idx vs =
      .ok (vs[(idx.val % (vs.length : Int)).toNat]'(emod_toNat_lt _ (List.length_pos_iff.mpr h))) := by
  cases vs with
  | nil => exact absurd rfl h
  | cons v0 rest =>
    cases idx with
    | conc i =>
      have hlt : (i % ((v0 :: rest).length : Int)).toNat < (v0 :: rest).length :=
        emod_toNat_lt i (List.length_pos_iff.mpr h)
      simp only [treeChoose, pyMod_eq_emod, Idx.val]
      rw [List.getD_eq_getElem?_getD, List.getElem?_eq_getElem hlt]; rfl
    | dyn i =>
      have hlt : (i % ((v0 :: rest).length : Int)).toNat < (v0 :: rest).length :=
        emod_toNat_lt i (List.length_pos_iff.mpr h)
      simp only [treeChoose, Idx.val]
      rw [List.getD_eq_getElem?_getD, List.getElem?_eq_getElem hlt]; rfl

/-! ### dtype promotion -/

theorem DType.join_rank_left (x y : DType) : x.rank ≤ (x.join y).rank := by
  unfold DType.join; split <;> omega
theorem DType.join_rank_right (x y : DType) : y.rank ≤ (x.join y).rank := by
  unfold DType.join; split <;> omega
theorem DType.join_eq (x y : DType) : x.join y = x ∨ x.join y = y := by
  unfold DType.join; split <;> simp

theorem foldl_join_ge (vs : List Leaf) (d : DType) :
    d.rank ≤ (vs.foldl (fun d l => d.join l.dt) d).rank ∧
    ∀ l ∈ vs, l.dt.rank ≤ (vs.foldl (fun d l => d.join l.dt) d).rank := by
  induction vs generalizing d with
  | nil => simp
  | cons v rest ih =>
    simp only [List.foldl_cons, List.mem_cons]
    have h := ih (d.join v.dt)
    refine ⟨Nat.le_trans (DType.join_rank_left d v.dt) h.1, ?_⟩
    intro l hl
    cases hl with
    | inl e => subst e; exact Nat.le_trans (DType.join_rank_right d l.dt) h.1
    | inr hm => exact h.2 l hm

theorem foldl_join_mem (vs : List Leaf) (d : DType) :
    (vs.foldl (fun d l => d.join l.dt) d) = d ∨
    ∃ l ∈ vs, (vs.foldl (fun d l => d.join l.dt) d) = l.dt := by
  induction vs generalizing d with
  | nil => simp
  | cons v rest ih =>
    simp only [List.foldl_cons, List.mem_cons]
    cases ih (d.join v.dt) with
    | inl h =>
      cases DType.join_eq d v.dt with
      | inl e => left; rw [h, e]
      | inr e => right; exact ⟨v, Or.inl rfl, by rw [h, e]⟩
    | inr h =>
      obtain ⟨l, hl, e⟩ := h
      right; exact ⟨l, Or.inr hl, e⟩

/-! ### `multi_switch` -/

theorem clamp_lt (i : Int) {n : Nat} (hn : 0 < n) : clamp i n < n := by
  unfold clamp; split
  · exact hn
  · split <;> omega

theorem clamp_eq (i : Int) (n : Nat) :
    (i < 0 → clamp i n = 0) ∧ ((n : Int) ≤ i → clamp i n = n - 1) ∧
    (0 ≤ i → i < (n : Int) → (clamp i n : Int) = i) := by
  unfold clamp
  refine ⟨fun h => by simp [h], fun h => ?_, fun h0 h1 => ?_⟩
  · by_cases h' : i < 0
    · have : n = 0 := by omega
      simp [h', this]
    · simp [h', h]
  · have h2 : ¬ i < 0 := by omega
    have h3 : ¬ i ≥ (n : Int) := by omega
    simp [h2, h3]; omega

end GenjaxVerif.MaskModel

namespace GenjaxVerif.MaskModel

/-! ### Vectorised masks are the elementwise lifting of scalar (traced-mode) masks -/
namespace VMask
variable {α : Type}

theorem toMasks_or_aux (va vb : List α) (fa fb : List Bool) :
    List.zipWith elt (pickV (orIdxV fa fb) va vb) (pickV (orIdxV fa fb) fa fb) =
      List.zipWith Mask.or (List.zipWith elt va fa) (List.zipWith elt vb fb) := by
  induction va generalizing vb fa fb with
  | nil => simp [pickV]
  | cons x xs ih =>
    cases vb with
    | nil => simp [pickV]
    | cons y ys =>
      cases fa with
      | nil => simp [pickV, orIdxV]
      | cons f fs =>
        cases fb with
        | nil => simp [pickV, orIdxV]
        | cons g gs =>
          have := ih ys fs gs
          simp only [pickV, orIdxV, List.zipWith_cons_cons, List.zip_cons_cons] at this ⊢
          rw [this]
          rfl

theorem toMasks_xor_aux (va vb : List α) (fa fb : List Bool) :
    List.zipWith elt (pickV (orIdxV fa fb) va vb) (List.zipWith (· ^^ ·) fa fb) =
      List.zipWith Mask.xor (List.zipWith elt va fa) (List.zipWith elt vb fb) := by
  induction va generalizing vb fa fb with
  | nil => simp [pickV]
  | cons x xs ih =>
    cases vb with
    | nil => simp [pickV]
    | cons y ys =>
      cases fa with
      | nil => simp [pickV, orIdxV]
      | cons f fs =>
        cases fb with
        | nil => simp [pickV, orIdxV]
        | cons g gs =>
          have := ih ys fs gs
          simp only [pickV, orIdxV, List.zipWith_cons_cons, List.zip_cons_cons] at this ⊢
          rw [this]
          rfl

theorem toMasks_invert (m : VMask α) : (invert m).toMasks = m.toMasks.map Mask.invert := by
  obtain ⟨vs, fs⟩ := m
  simp only [invert, toMasks]
  induction vs generalizing fs with
  | nil => simp
  | cons x xs ih =>
    cases fs with
    | nil => simp
    | cons f fs' => simp only [List.map_cons, List.zipWith_cons_cons, ih fs']; rfl

theorem toMasks_rebuild_sc (vs : List α) (fs : List Bool) (g : Flag) :
    List.zipWith elt vs (fs.map (g.val && ·)) =
      (List.zipWith elt vs fs).map (fun x => Mask.build (.mask x) g) := by
  induction vs generalizing fs with
  | nil => simp
  | cons x xs ih =>
    cases fs with
    | nil => simp
    | cons f fs' =>
      simp only [List.map_cons, List.zipWith_cons_cons, ih fs']
      cases g <;> rfl

theorem toMasks_rebuild_vec (vs : List α) (fs gs : List Bool) :
    List.zipWith elt vs (List.zipWith (· && ·) gs fs) =
      List.zipWith (fun x (g : Bool) => Mask.build (.mask x) (.dyn g)) (List.zipWith elt vs fs) gs := by
  induction vs generalizing fs gs with
  | nil => simp
  | cons x xs ih =>
    cases fs with
    | nil => simp
    | cons f fs' =>
      cases gs with
      | nil => simp
      | cons g gs' => simp only [List.zipWith_cons_cons, ih fs' gs']; rfl

theorem unmask_aux (vs ds : List α) (fs : List Bool) :
    List.zipWith (fun (b : Bool) (p : α × α) => if b then p.1 else p.2) fs (List.zip vs ds) =
      List.zipWith (fun (m : Mask α) d => m.obs.getD d) (List.zipWith elt vs fs) ds := by
  induction vs generalizing ds fs with
  | nil => simp
  | cons x xs ih =>
    cases ds with
    | nil => simp
    | cons d ds' =>
      cases fs with
      | nil => simp
      | cons f fs' =>
        simp only [List.zipWith_cons_cons, List.zip_cons_cons, ih ds' fs']
        cases f <;> rfl

theorem map_obs_zipWith (f : Mask α → Mask α → Mask α) (g : Option α → Option α → Option α)
    (h : ∀ x y, (f x y).obs = g x.obs y.obs) (l1 l2 : List (Mask α)) :
    (List.zipWith f l1 l2).map Mask.obs = List.zipWith g (l1.map Mask.obs) (l2.map Mask.obs) := by
  induction l1 generalizing l2 with
  | nil => simp
  | cons x xs ih =>
    cases l2 with
    | nil => simp
    | cons y ys => simp only [List.zipWith_cons_cons, List.map_cons, ih ys, h]

theorem length_pickV {β} (idx : List Int) (xs ys : List β) :
    (pickV idx xs ys).length = min idx.length (min xs.length ys.length) := by
  simp [pickV]

theorem length_orIdxV (fs gs : List Bool) : (orIdxV fs gs).length = min fs.length gs.length := by
  simp [orIdxV]

end VMask
/-! ### Rank-2 payload, one row: numpy's alignment is harmless -/
section rank2
open Mask
variable {α : Type}

theorem filterMap_range_zip (g : α → α → α) (xs ys : List α) (h : xs.length = ys.length) :
    (List.range xs.length).filterMap (fun j =>
      match xs[j]?, ys[j]? with
      | some x, some y => some (g x y)
      | _, _ => Option.none) = List.zipWith g xs ys := by
  induction xs generalizing ys with
  | nil => simp
  | cons x xs ih =>
    cases ys with
    | nil => simp at h
    | cons y ys =>
      simp only [List.length_cons] at h ⊢
      rw [List.range_succ_eq_map, List.filterMap_cons]
      simp only [List.getElem?_cons_zero, List.filterMap_map, List.zipWith_cons_cons]
      congr 1
      have := ih ys (by omega)
      rw [← this]
      congr 1

theorem bcastCols_one (m : Nat) : M2.bcastCols 1 m = .ok m := by
  unfold M2.bcastCols
  by_cases h : m = 1
  · simp [h]
  · simp [h]

theorem bcast2_one {σ} (f : σ → α → α → α) (s : σ) (ra rb : List α) (h : ra.length = rb.length) :
    M2.bcast2 f [s] [ra] [rb] = .ok [List.zipWith (f s) ra rb] := by
  simp only [M2.bcast2, M2.ncols, List.length_singleton, List.head?_cons, Option.map_some, Option.getD_some,
    bcastCols_one]
  by_cases hm : ra.length = 1
  · match ra, rb, hm, h with
    | [x], [y], _, _ => rfl
    | [x], [], _, h => simp at h
    | [x], _ :: _ :: _, _, h => simp at h
  · simp only [hm, if_false]
    have := filterMap_range_zip (f s) ra rb h
    simp [List.range_succ_eq_map, ← this]
    congr 1
    funext j
    cases ra[j]? <;> cases rb[j]? <;> rfl

theorem zipWith_fst (xs ys : List α) (h : xs.length = ys.length) :
    List.zipWith (fun x _ => x) xs ys = xs := by
  induction xs generalizing ys with
  | nil => simp
  | cons x xs ih =>
    cases ys with
    | nil => simp at h
    | cons y ys => simp only [List.zipWith_cons_cons, ih ys (by simpa using h)]

theorem zipWith_snd (xs ys : List α) (h : xs.length = ys.length) :
    List.zipWith (fun _ y => y) xs ys = ys := by
  induction xs generalizing ys with
  | nil => cases ys with
    | nil => rfl
    | cons y ys => simp at h
  | cons x xs ih =>
    cases ys with
    | nil => simp at h
    | cons y ys => simp only [List.zipWith_cons_cons, ih ys (by simpa using h)]

theorem rank2_or_one_row (ra rb : List α) (f g : Bool) (h : ra.length = rb.length) :
    ∃ r, M2.or ⟨[ra], [f]⟩ ⟨[rb], [g]⟩ = .ok r ∧
      r.obs = List.zipWith Option.or (M2.obs ⟨[ra], [f]⟩) (M2.obs ⟨[rb], [g]⟩) := by
  have hc : M2.compatible (⟨[ra], [f]⟩ : M2 α) ⟨[rb], [g]⟩ = true := by
    simp [M2.compatible, M2.wf, M2.ncols, h]
  refine ⟨⟨[List.zipWith (pick (orIdx (.dyn f) (.dyn g))) ra rb],
      VMask.pickV [orIdx (.dyn f) (.dyn g)] [f] [g]⟩, ?_, ?_⟩
  · simp only [M2.or, hc, if_true, VMask.orIdxV, List.zipWith_cons_cons, List.zipWith_nil_left,
      bcast2_one _ _ _ _ h]
  · cases f <;> cases g
    · rfl
    · have e : (pick (orIdx (.dyn false) (.dyn true)) : α → α → α) = fun _ y => y := rfl
      simp only [e, zipWith_snd ra rb h]; rfl
    · have e : (pick (orIdx (.dyn true) (.dyn false)) : α → α → α) = fun x _ => x := rfl
      simp only [e, zipWith_fst ra rb h]; rfl
    · have e : (pick (orIdx (.dyn true) (.dyn true)) : α → α → α) = fun x _ => x := rfl
      simp only [e, zipWith_fst ra rb h]; rfl

end rank2
end GenjaxVerif.MaskModel
