import GenjaxVerif.Model.FinProbInfer
/-! Linearity lemmas for finite distributions over ℚ and the basic unbiasedness facts. -/
namespace GenjaxVerif.FinProbInfer

theorem sum_map_mul_left (l : List Rat) (c : Rat) : (l.map (fun x => c * x)).sum = c * l.sum := by
  induction l with
  | nil => simp
  | cons x xs ih => simp [ih]; grind

theorem expect_nil {α} (f : α → Rat) : expect ([] : FinDist α) f = 0 := rfl

theorem expect_cons {α} (x : α × Rat) (d : FinDist α) (f : α → Rat) :
    expect (x :: d) f = x.2 * f x.1 + expect d f := by simp [expect]

theorem expect_append {α} (d e : FinDist α) (f : α → Rat) :
    expect (d ++ e) f = expect d f + expect e f := by simp [expect, List.sum_append]

theorem expect_dmap {α β} (h : α → β) (d : FinDist α) (f : β → Rat) :
    expect (dmap h d) f = expect d (fun a => f (h a)) := by
  simp [expect, dmap, List.map_map, Function.comp_def]

theorem expect_scale {α} (d : FinDist α) (c : Rat) (f : α → Rat) :
    expect (d.map (fun y => (y.1, c * y.2))) f = c * expect d f := by
  induction d with
  | nil => simp [expect]
  | cons x xs ih => simp only [List.map_cons, expect_cons, ih]; grind

theorem expect_dbind {α β} (d : FinDist α) (g : α → FinDist β) (f : β → Rat) :
    expect (dbind d g) f = (d.map (fun x => x.2 * expect (g x.1) f)).sum := by
  induction d with
  | nil => simp [dbind, expect]
  | cons x xs ih =>
    have : dbind (x :: xs) g = (g x.1).map (fun y => (y.1, x.2 * y.2)) ++ dbind xs g := by
      simp [dbind]
    rw [this, expect_append, expect_scale, ih]; simp

theorem expect_mul_left {α} (d : FinDist α) (c : Rat) (f : α → Rat) :
    expect d (fun a => c * f a) = c * expect d f := by
  induction d with
  | nil => simp [expect]
  | cons x xs ih => simp only [expect_cons, ih]; grind

theorem expect_add {α} (d : FinDist α) (f g : α → Rat) :
    expect d (fun a => f a + g a) = expect d f + expect d g := by
  induction d with
  | nil => simp [expect]; grind
  | cons x xs ih => simp only [expect_cons, ih]; grind

theorem expect_const {α} (d : FinDist α) (c : Rat) : expect d (fun _ => c) = c * mass d := by
  induction d with
  | nil => simp [expect, mass]
  | cons x xs ih => simp only [expect_cons, ih]; simp [mass]; grind

theorem mass_eq_expect {α} (d : FinDist α) : mass d = expect d (fun _ => 1) := by
  rw [expect_const]; simp

/-- `generate` is an unbiased estimator of the normalising constant (no proposal). -/
theorem expect_genD (t : Tree) (c : Asg) : expect (genD t c) (fun r => r.2) = Z t c := by
  induction t with
  | ret => simp [genD, Z, expect]; grind
  | choose a d k ih =>
    simp only [genD, Z]
    cases c.lookup a with
    | some v =>
      simp only [expect_dmap]
      rw [expect_mul_left, ih]
    | none =>
      simp only [expect_dbind, expect_dmap, ih]

/-- Expectation of one importance particle's weight, for any proposal that reports weights. -/
theorem expect_isD (t : Tree) (obs : Asg) (q : FinDist (Asg × Rat)) :
    expect (isD t obs q) (fun w => w) = (q.map (fun x => x.2 * (Z t (obs ++ x.1.1) / x.1.2))).sum := by
  simp only [isD, expect_dbind, expect_dmap]
  congr 1
  apply List.map_congr_left
  intro x _
  congr 1
  have : (fun (r : Asg × Rat) => r.2 / x.1.2) = (fun r => x.1.2⁻¹ * r.2) := by
    funext r; rw [Rat.div_def]; grind
  rw [this, expect_mul_left, expect_genD, Rat.div_def]; grind

theorem mass_sumK (d : FinDist Rat) (h : mass d = 1) : ∀ n, mass (sumK d n) = 1 := by
  intro n
  induction n with
  | zero => simp [sumK, mass]; grind
  | succ n ih =>
    rw [mass_eq_expect] at ih ⊢
    simp only [sumK, expect_dbind, expect_dmap, ih]
    rw [mass_eq_expect] at h
    simpa [expect] using h

/-- Linearity: the expected sum of K independent weights is K times the expected weight. -/
theorem expect_sumK (d : FinDist Rat) (h : mass d = 1) :
    ∀ n : Nat, expect (sumK d n) (fun s => s) = (n : Rat) * expect d (fun w => w) := by
  intro n
  induction n with
  | zero => simp [sumK, expect]; grind
  | succ n ih =>
    simp only [sumK, expect_dbind, expect_dmap]
    have hm := mass_sumK d h n
    have : ∀ w : Rat, expect (sumK d n) (fun a => w + a) = w + (n : Rat) * expect d (fun w => w) := by
      intro w
      rw [expect_add, expect_const, hm, ih]; grind
    simp only [this]
    have h2 : (d.map (fun x => x.2 * (x.1 + (n : Rat) * expect d (fun w => w)))).sum
        = expect d (fun w => w + (n : Rat) * expect d (fun w => w)) := rfl
    rw [h2, expect_add, expect_const, h]
    push_cast
    grind

end GenjaxVerif.FinProbInfer
