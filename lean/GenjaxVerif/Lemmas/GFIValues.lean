import GenjaxVerif.Lemmas.GFIGenerate
import GenjaxVerif.Lemmas.GFIShape
/-! Value laws: which values the choices of a returned trace hold, stated as relations on traces
    that narrow the constraint / selection along addresses exactly as lookups do. -/
namespace GenjaxVerif.GFI
open GenjaxVerif CMap

/-- The value a constraint validly prescribes at the current address, if any. -/
def validValue (c : CMap) : Option Int :=
  match c.leaf with
  | some (.plain v) => some v
  | some (.masked true v) => some v
  | _ => none

mutual
/-- `Agrees c t`: every primitive choice of `t` whose address `c` validly constrains holds the
    constraint's value. -/
def Agrees : CMap → Trace → Prop
  | c, .dist _ _ v _ => ∀ w, validValue c = some w → v = w
  | c, .static _ _ subs => AgreesAL c subs
  | c, .vec _ _ elems => AgreesL c 0 elems
  | c, .switch _ _ sub => Agrees c sub
  | c, .mask _ inner => Agrees c inner
  | c, .dimap _ _ inner => Agrees c inner
def AgreesL (c : CMap) (k : Nat) : List Trace → Prop
  | [] => True
  | t :: ts => Agrees (CMap.sub c (.i k)) t ∧ AgreesL c (k + 1) ts
def AgreesAL (c : CMap) : List (List String × Trace) → Prop
  | [] => True
  | (a, t) :: ts => Agrees (CMap.subStatic c a) t ∧ AgreesAL c ts
end

theorem agreesAL_append (c : CMap) : ∀ (a b : List (List String × Trace)),
    AgreesAL c (a ++ b) ↔ AgreesAL c a ∧ AgreesAL c b
  | [], b => by simp [AgreesAL]
  | (k, t) :: xs, b => by simp [AgreesAL, agreesAL_append c xs b, and_assoc]

theorem agreesL_of_get (c : CMap) : ∀ (ts : List Trace) (k : Nat),
    (∀ j (hj : j < ts.length), Agrees (CMap.sub c (.i (k + j))) ts[j]) → AgreesL c k ts
  | [], _, _ => trivial
  | t :: ts, k, h => by
    refine ⟨?_, agreesL_of_get c ts (k + 1) (fun j hj => ?_)⟩
    · have := h 0 (by simp)
      simpa only [Nat.add_zero, List.getElem_cons_zero] using this
    · have := h (j + 1) (by simpa using hj)
      simpa only [List.getElem_cons_succ, Nat.add_assoc, Nat.add_comm 1 j] using this

theorem leaf_agrees {ds m d i r} (hm : m = .gen ∨ m = .upd) (h : leaf ds m d i = .ok r) : Agrees i.c r.tr := by
  unfold leaf at h
  rcases hm with rfl | rfl <;> simp only at h
  · split at h
    · rename_i hc; simp at h; subst h; intro w hw; simp [validValue, hc] at hw
    · rename_i f v hc
      split at h
      · rename_i hf; simp at h; subst h; intro w hw; simp [validValue, hc, hf] at hw; exact hw
      · rename_i hf; simp at h; subst h; intro w hw; simp [validValue, hc, hf] at hw
    · rename_i v hc; simp at h; subst h; intro w hw; simp [validValue, hc] at hw; exact hw
  · simp only [bind_ok] at h
    obtain ⟨t, _, h2⟩ := h
    split at h2
    · split at h2
      · rename_i hc; simp at h2; subst h2; intro w hw; simp [validValue, hc] at hw
      · rename_i f v hc
        simp at h2; subst h2; intro w hw
        cases f <;> simp [validValue, hc] at hw ⊢
        exact hw
      · rename_i v hc; simp at h2; subst h2; intro w hw; simp [validValue, hc] at hw; exact hw
    · simp at h2

theorem bindIn_c {m i olds st addr a i'} (h : bindIn m i olds st addr a = .ok i') :
    i'.c = CMap.subStatic i.c addr := by
  unfold bindIn at h
  split at h
  · simp at h
  · split at h
    · simp at h
    · split at h
      · simp at h
      · simp at h; subst h; rfl

mutual
/-- generate and update install the constraint: the returned trace agrees with it. -/
theorem run_agrees (ds : DistSem) (m : Mode) (hm : m = .gen ∨ m = .upd) :
    ∀ (p : Prog) (i : In) (r : Res), run ds m p i = .ok r → Agrees i.c r.tr
  | .dist d, i, r, h => by simp only [run] at h; exact leaf_agrees hm h
  | .static b, i, r, h => by
    simp only [run, staticRun, bind_ok, pure_ok] at h
    obtain ⟨env, _, olds, _, ⟨st, v⟩, h3, rfl⟩ := h
    simpa [Agrees] using run_agrees_body ds m hm b i olds env {} st v h3 (by simp [AgreesAL])
  | .vmap p axes, i, r, h => by
    simp only [run, vmapRun, bind_ok, pure_ok] at h
    obtain ⟨as, _, n, _, _, _, rs, h3, rfl⟩ := h
    simp only [vecRes, Agrees]
    refine agreesL_of_get i.c _ 0 (fun j hj => ?_)
    have hj' : j < rs.length := by simpa using hj
    have hg := vmapLoop_get h3 j hj'
    simp only [bind_ok] at hg
    obtain ⟨i', hi', hr⟩ := hg
    simp only [vmapElem, bind_ok, pure_ok] at hi'
    obtain ⟨ea, _, o, _, rfl⟩ := hi'
    simpa [List.getElem_map] using run_agrees ds m hm p _ _ hr
  | .scan p len, i, r, h => by
    simp only [run, scanRun, bind_ok, pure_ok] at h
    obtain ⟨⟨carry, xs⟩, _, _, _, ⟨rs, fin⟩, h3, ys, _, rfl⟩ := h
    simp only [vecRes, Agrees]
    dsimp only at h3
    obtain ⟨hl, hg⟩ := scanLoop_get h3
    refine agreesL_of_get i.c _ 0 (fun j hj => ?_)
    have hj' : j < rs.length := by simpa using hj
    obtain ⟨key', c', hj2⟩ := hg j hj' (by omega)
    simp only [bind_ok] at hj2
    obtain ⟨i', hi', hr⟩ := hj2
    simp only [scanElem, bind_ok, pure_ok] at hi'
    obtain ⟨o, _, rfl⟩ := hi'
    simpa [List.getElem_map] using run_agrees ds m hm p _ _ hr
  | .switch ps, i, r, h => by
    simp only [run, switchRun, bind_ok] at h
    obtain ⟨⟨idx, ba⟩, _, h2⟩ := h
    rcases hm with rfl | rfl <;> simp only at h2
    · simp only [bind_ok, pure_ok] at h2
      obtain ⟨r', h4, rfl⟩ := h2
      simpa [Agrees] using run_agrees_nth ds .gen (Or.inl rfl) ps idx _ r' h4
    · split at h2
      · split at h2
        · simp only [bind_ok, pure_ok] at h2
          obtain ⟨fr, _, r', h4, rfl⟩ := h2
          simpa [Agrees] using run_agrees_nth ds .upd (Or.inr rfl) ps idx _ r' h4
        · split at h2
          · simp at h2
          · simp only [bind_ok, pure_ok] at h2
            obtain ⟨r', h4, rfl⟩ := h2
            simpa [Agrees] using run_agrees_nth ds .upd (Or.inr rfl) ps idx _ r' h4
      · simp at h2
  | .mask p, i, r, h => by
    simp only [run, maskRun, bind_ok] at h
    obtain ⟨⟨check, iargs⟩, _, h2⟩ := h
    rcases hm with rfl | rfl <;> simp only at h2
    · simp only [bind_ok, pure_ok] at h2
      obtain ⟨r', h4, rfl⟩ := h2
      simpa [Agrees] using run_agrees ds .gen (Or.inl rfl) p _ r' h4
    · split at h2
      · simp only [bind_ok, pure_ok] at h2
        obtain ⟨r', h4, rfl⟩ := h2
        simpa [Agrees] using run_agrees ds .upd (Or.inr rfl) p _ r' h4
      · simp at h2
  | .dimap pre p post, i, r, h => by
    simp only [run, dimapRun, bind_ok, pure_ok] at h
    obtain ⟨as, _, ia, _, o, _, r', h4, rv, _, rfl⟩ := h
    simpa [Agrees] using run_agrees ds m hm p _ r' h4

theorem run_agrees_nth (ds : DistSem) (m : Mode) (hm : m = .gen ∨ m = .upd) :
    ∀ (ps : List Prog) (k : Nat) (i : In) (r : Res), runNth ds m ps k i = .ok r → Agrees i.c r.tr
  | [], _, _, _, h => by simp [runNth] at h
  | p :: _, 0, i, r, h => by simp only [runNth] at h; exact run_agrees ds m hm p i r h
  | _ :: ps, k + 1, i, r, h => by simp only [runNth] at h; exact run_agrees_nth ds m hm ps k i r h

theorem run_agrees_body (ds : DistSem) (m : Mode) (hm : m = .gen ∨ m = .upd) :
    ∀ (b : Body) (i : In) (olds env) (st st' : SState) (v : Val),
    runBody ds m b i olds env st = .ok (st', v) → AgreesAL i.c st.subs → AgreesAL i.c st'.subs
  | .ret e, i, olds, env, st, st', v, h, hst => by
    simp only [runBody, bind_ok, pure_ok] at h
    obtain ⟨_, _, h2⟩ := h
    simp at h2; obtain ⟨rfl, _⟩ := h2; exact hst
  | .bind addr p aes rest, i, olds, env, st, st', v, h, hst => by
    simp only [runBody, bind_ok] at h
    obtain ⟨a, _, i', hi', r, h3, h4⟩ := h
    refine run_agrees_body ds m hm rest i olds _ _ st' v h4 ?_
    have := run_agrees ds m hm p i' r h3
    rw [bindIn_c hi'] at this
    simp [bindOut, agreesAL_append, AgreesAL, hst, this]
end

end GenjaxVerif.GFI
