import GenjaxVerif.Lemmas.CMap
/-! The importance weight is the log-density of exactly the (validly) constrained choices. -/
namespace GenjaxVerif.GFI
open GenjaxVerif CMap

/-- Does the constraint hold a usable value here (a bare value, or a mask with flag True)? -/
def validLeaf (c : CMap) : Bool :=
  match c.leaf with
  | some (.plain _) => true
  | some (.masked f _) => f
  | none => false

mutual
/-- Sum of the log-densities of the live choices of `t` whose address is validly constrained
    by `c` (the constraint is narrowed along the address exactly as `get_submap` does). -/
def cscore : CMap → Trace → Int
  | c, .dist _ _ _ lp => if validLeaf c then lp else 0
  | c, .static _ _ subs => cscoreAL c subs
  | c, .vec _ _ elems => cscoreL c 0 elems
  | c, .switch _ _ sub => cscore c sub
  | c, .mask f inner => if f then cscore c inner else 0
  | c, .dimap _ _ inner => cscore c inner
def cscoreL (c : CMap) (k : Nat) : List Trace → Int
  | [] => 0
  | t :: ts => cscore (CMap.sub c (.i k)) t + cscoreL c (k + 1) ts
def cscoreAL (c : CMap) : List (List String × Trace) → Int
  | [] => 0
  | (a, t) :: ts => cscore (CMap.subStatic c a) t + cscoreAL c ts
end

theorem cscoreAL_append (c : CMap) (a b : List (List String × Trace)) :
    cscoreAL c (a ++ b) = cscoreAL c a + cscoreAL c b := by
  induction a with
  | nil => simp [cscoreAL]
  | cons x xs ih => obtain ⟨k, t⟩ := x; simp [cscoreAL, ih, Int.add_assoc]

theorem leaf_gen_w {ds d i r} (h : leaf ds .gen d i = .ok r) : r.w = cscore i.c r.tr := by
  unfold leaf at h
  simp only at h
  split at h
  · rename_i hc; simp at h; subst h; simp [cscore, validLeaf, hc]
  · rename_i f v hc
    split at h
    · rename_i hf; simp at h; subst h; simp [cscore, validLeaf, hc, hf]
    · rename_i hf; simp at h; subst h; simp [cscore, validLeaf, hc, hf]
  · rename_i v hc; simp at h; subst h; simp [cscore, validLeaf, hc]

/-- Index-aware summation for vector combinators. -/
theorem sumW_cscoreL (c : CMap) : ∀ (rs : List Res) (k : Nat),
    (∀ j (hj : j < rs.length), rs[j].w = cscore (CMap.sub c (.i (k + j))) rs[j].tr) →
    sumW rs = cscoreL c k (rs.map (·.tr))
  | [], _, _ => by simp [sumW, cscoreL]
  | r :: rs, k, h => by
    have h0 := h 0 (by simp)
    simp only [Nat.add_zero, List.getElem_cons_zero] at h0
    have ih := sumW_cscoreL c rs (k + 1) (fun j hj => by
      have := h (j + 1) (by simpa using hj)
      simpa [Nat.add_assoc, Nat.add_comm 1 j] using this)
    simp only [sumW_cons, List.map_cons, cscoreL, h0, ih]

mutual
theorem gen_w (ds : DistSem) : ∀ (p : Prog) (i : In) (r : Res), run ds .gen p i = .ok r → r.w = cscore i.c r.tr
  | .dist d, i, r, h => by simp only [run] at h; exact leaf_gen_w h
  | .static b, i, r, h => by
    simp only [run, staticRun, bind_ok, pure_ok] at h
    obtain ⟨env, _, olds, _, ⟨st, v⟩, h3, rfl⟩ := h
    have := gen_w_body ds b i olds env {} st v h3 (by simp [cscoreAL])
    simpa [cscore] using this
  | .vmap p axes, i, r, h => by
    simp only [run, vmapRun, bind_ok, pure_ok] at h
    obtain ⟨as, _, n, _, _, _, rs, h3, rfl⟩ := h
    simp only [vecRes, cscore]
    refine sumW_cscoreL i.c rs 0 (fun j hj => ?_)
    have hj' := vmapLoop_get h3 j hj
    simp only [bind_ok] at hj'
    obtain ⟨i', hi', hr⟩ := hj'
    simp only [vmapElem, bind_ok, pure_ok] at hi'
    obtain ⟨ea, _, o, _, rfl⟩ := hi'
    exact gen_w ds p _ _ hr
  | .scan p len, i, r, h => by
    simp only [run, scanRun, bind_ok, pure_ok] at h
    obtain ⟨⟨carry, xs⟩, _, _, _, ⟨rs, fin⟩, h3, ys, _, rfl⟩ := h
    simp only [vecRes, cscore]
    dsimp only at h3
    obtain ⟨hl, hg⟩ := scanLoop_get h3
    refine sumW_cscoreL i.c rs 0 (fun j hj => ?_)
    obtain ⟨key', c', hj'⟩ := hg j hj (by omega)
    simp only [bind_ok] at hj'
    obtain ⟨i', hi', hr⟩ := hj'
    simp only [scanElem, bind_ok, pure_ok] at hi'
    obtain ⟨o, _, rfl⟩ := hi'
    exact gen_w ds p _ _ hr
  | .switch ps, i, r, h => by
    simp only [run, switchRun, bind_ok, pure_ok] at h
    obtain ⟨⟨idx, ba⟩, _, r', h2, rfl⟩ := h
    simpa [cscore] using gen_w_nth ds ps idx _ r' h2
  | .mask p, i, r, h => by
    simp only [run, maskRun, bind_ok, pure_ok] at h
    obtain ⟨⟨check, iargs⟩, _, r', h2, rfl⟩ := h
    have := gen_w ds p _ r' h2
    cases check <;> simp [cscore, this]
  | .dimap pre p post, i, r, h => by
    simp only [run, dimapRun, bind_ok, pure_ok] at h
    obtain ⟨as, _, ia, _, o, _, r', h4, rv, _, rfl⟩ := h
    simpa [cscore] using gen_w ds p _ r' h4

theorem gen_w_nth (ds : DistSem) : ∀ (ps : List Prog) (k : Nat) (i : In) (r : Res),
    runNth ds .gen ps k i = .ok r → r.w = cscore i.c r.tr
  | [], _, _, _, h => by simp [runNth] at h
  | p :: _, 0, i, r, h => by simp only [runNth] at h; exact gen_w ds p i r h
  | _ :: ps, k + 1, i, r, h => by simp only [runNth] at h; exact gen_w_nth ds ps k i r h

theorem gen_w_body (ds : DistSem) : ∀ (b : Body) (i : In) (olds env) (st st' : SState) (v : Val),
    runBody ds .gen b i olds env st = .ok (st', v) →
    st.w = cscoreAL i.c st.subs → st'.w = cscoreAL i.c st'.subs
  | .ret e, i, olds, env, st, st', v, h, hst => by
    simp only [runBody, bind_ok, pure_ok] at h
    obtain ⟨_, _, h2⟩ := h
    simp at h2; obtain ⟨rfl, _⟩ := h2; exact hst
  | .bind addr p aes rest, i, olds, env, st, st', v, h, hst => by
    simp only [runBody, bind_ok] at h
    obtain ⟨a, _, i', hi', r, h3, h4⟩ := h
    refine gen_w_body ds rest i olds _ _ st' v h4 ?_
    have hc : i'.c = CMap.subStatic i.c addr := by
      unfold bindIn at hi'
      split at hi'
      · simp at hi'
      · split at hi'
        · simp at hi'
        · simp [bindOld] at hi'; subst hi'; rfl
    simp [bindOut, cscoreAL_append, cscoreAL, hst, gen_w ds p i' r h3, hc]
end

/-! the empty constraint -/

mutual
theorem cscore_nil : ∀ (t : Trace), cscore [] t = 0
  | .dist _ _ _ _ => by simp [cscore, validLeaf, CMap.leaf]
  | .static _ _ subs => by simp only [cscore]; exact cscoreAL_nil subs
  | .vec _ _ elems => by simp only [cscore]; exact cscoreL_nil 0 elems
  | .switch _ _ sub => by simp only [cscore]; exact cscore_nil sub
  | .mask f inner => by simp only [cscore, cscore_nil inner]; simp
  | .dimap _ _ inner => by simp only [cscore]; exact cscore_nil inner
theorem cscoreL_nil : ∀ (k : Nat) (ts : List Trace), cscoreL [] k ts = 0
  | _, [] => rfl
  | k, t :: ts => by simp only [cscoreL, sub_nil, cscore_nil t, cscoreL_nil (k + 1) ts]; rfl
theorem cscoreAL_nil : ∀ (subs : List (List String × Trace)), cscoreAL [] subs = 0
  | [] => rfl
  | (a, t) :: ts => by simp only [cscoreAL, subStatic_nil, cscore_nil t, cscoreAL_nil ts]; rfl
end

end GenjaxVerif.GFI
