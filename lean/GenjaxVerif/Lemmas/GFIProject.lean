import GenjaxVerif.Lemmas.GFIShape
import GenjaxVerif.Props.C18
/-! `project` splits the score along a selection. -/
namespace GenjaxVerif.GFI
open GenjaxVerif

theorem subs_mem' (s : Sel) (a b : List String) : Sel.mem (Sel.subs s a) b = Sel.mem s (a ++ b) :=
  Sel.C18_subs_mem s a b

theorem check_eq_mem_nil (s : Sel) : s.check = Sel.mem s [] := rfl

mutual
/-- Every static-language body traces pairwise distinct addresses (what `AddressReuse` enforces). -/
def DistinctAddrs : Prog → Prop
  | .dist _ => True
  | .static b => DistinctBody [] b
  | .vmap p _ => DistinctAddrs p
  | .scan p _ => DistinctAddrs p
  | .switch ps => DistinctL ps
  | .mask p => DistinctAddrs p
  | .dimap _ p _ => DistinctAddrs p
def DistinctL : List Prog → Prop
  | [] => True
  | p :: ps => DistinctAddrs p ∧ DistinctL ps
def DistinctBody : List (List String) → Body → Prop
  | _, .ret _ => True
  | seen, .bind a p _ rest => a ∉ seen ∧ DistinctAddrs p ∧ DistinctBody (a :: seen) rest
end

theorem projectL_sum {f g : Trace → Except Err Int} {P : Trace → Prop} :
    ∀ (ts : List Trace) a b, (∀ t ∈ ts, P t) →
      (∀ t x y, P t → f t = .ok x → g t = .ok y → x + y = t.score) →
      projectL f ts = .ok a → projectL g ts = .ok b → a + b = Trace.scoreL ts
  | [], a, b, _, _, ha, hb => by simp [projectL] at ha hb; subst ha hb; rfl
  | t :: ts, a, b, hP, hfg, ha, hb => by
    simp only [projectL, bind_ok, pure_ok] at ha hb
    obtain ⟨x, hx, xs, hxs, rfl⟩ := ha
    obtain ⟨y, hy, ys, hys, rfl⟩ := hb
    have h1 := hfg t x y (hP t (by simp)) hx hy
    have h2 := projectL_sum ts xs ys (fun t ht => hP t (by simp [ht])) hfg hxs hys
    simp only [Trace.scoreL]; omega

mutual
/-- Complementary selections split the score. -/
theorem project_split : ∀ (p : Prog) (t : Trace) (s1 s2 : Sel) (a b : Int), Shape p t → DistinctAddrs p →
    (∀ q, Sel.mem s2 q = !Sel.mem s1 q) →
    project p t s1 = .ok a → project p t s2 = .ok b → a + b = t.score
  | .dist d, t, s1, s2, a, b, hs, _, hc, ha, hb => by
    cases t <;> simp only [Shape] at hs
    simp only [project, check_eq_mem_nil, hc] at ha hb
    simp at ha hb; subst ha hb
    simp only [Trace.score]
    by_cases hm : Sel.mem s1 [] = true
    · simp [hm]
    · simp [hm]
  | .static bd, t, s1, s2, a, b, hs, hd, hc, ha, hb => by
    cases t <;> simp only [Shape] at hs
    rename_i targs tret subs
    simp only [project] at ha hb
    simp only [Trace.score]
    exact project_split_body bd subs [] subs [] s1 s2 a b (by simp) hs (by simp) (by simpa [DistinctAddrs] using hd) hc ha hb
  | .vmap p axes, t, s1, s2, a, b, hs, hd, hc, ha, hb => by
    cases t <;> simp only [Shape] at hs
    simp only [project] at ha hb
    simp only [Trace.score]
    exact projectL_sum (P := fun t => Shape p t) _ a b hs
      (fun t x y ht hx hy => project_split p t s1 s2 x y ht (by simpa [DistinctAddrs] using hd) hc hx hy) ha hb
  | .scan p len, t, s1, s2, a, b, hs, hd, hc, ha, hb => by
    cases t <;> simp only [Shape] at hs
    simp only [project] at ha hb
    simp only [Trace.score]
    exact projectL_sum (P := fun t => Shape p t) _ a b hs
      (fun t x y ht hx hy => project_split p t s1 s2 x y ht (by simpa [DistinctAddrs] using hd) hc hx hy) ha hb
  | .switch ps, t, s1, s2, a, b, hs, hd, hc, ha, hb => by
    cases t <;> simp only [Shape] at hs
    simp only [project] at ha hb
    simp only [Trace.score]
    exact project_split_nth ps _ _ s1 s2 a b hs (by simpa [DistinctAddrs] using hd) hc ha hb
  | .mask p, t, s1, s2, a, b, hs, hd, hc, ha, hb => by
    simp [project] at ha
  | .dimap pre p post, t, s1, s2, a, b, hs, hd, hc, ha, hb => by
    cases t <;> simp only [Shape] at hs
    simp only [project] at ha hb
    simp only [Trace.score]
    exact project_split p _ s1 s2 a b hs (by simpa [DistinctAddrs] using hd) hc ha hb

theorem project_split_nth : ∀ (ps : List Prog) (k : Nat) (t : Trace) (s1 s2 : Sel) (a b : Int), ShapeNth ps k t →
    DistinctL ps → (∀ q, Sel.mem s2 q = !Sel.mem s1 q) →
    projectNth ps k t s1 = .ok a → projectNth ps k t s2 = .ok b → a + b = t.score
  | [], _, _, _, _, _, _, hs, _, _, _, _ => by simp [ShapeNth] at hs
  | p :: _, 0, t, s1, s2, a, b, hs, hd, hc, ha, hb => by
    simp only [projectNth] at ha hb
    exact project_split p t s1 s2 a b (by simpa [ShapeNth] using hs) hd.1 hc ha hb
  | _ :: ps, k + 1, t, s1, s2, a, b, hs, hd, hc, ha, hb => by
    simp only [projectNth] at ha hb
    exact project_split_nth ps k t s1 s2 a b (by simpa [ShapeNth] using hs) hd.2 hc ha hb

/-- The body walk: `subs = pre ++ suf`, the remaining binds are exactly `suf`. -/
theorem project_split_body : ∀ (bd : Body) (subs pre suf : List (List String × Trace)) (seen : List (List String))
    (s1 s2 : Sel) (a b : Int),
    subs = pre ++ suf → ShapeBody bd suf → (∀ x, x ∈ seen ↔ x ∈ pre.map (·.1)) → DistinctBody seen bd →
    (∀ q, Sel.mem s2 q = !Sel.mem s1 q) →
    projectBody bd subs s1 = .ok a → projectBody bd subs s2 = .ok b → a + b = Trace.scoreAL suf
  | .ret e, subs, pre, suf, seen, s1, s2, a, b, _, hs, _, _, _, ha, hb => by
    simp only [ShapeBody] at hs; subst hs
    simp [projectBody] at ha hb; subst ha hb; rfl
  | .bind addr p aes rest, subs, pre, suf, seen, s1, s2, a, b, hsub, hs, hseen, hd, hc, ha, hb => by
    cases suf with
    | nil => simp [ShapeBody] at hs
    | cons x suf' =>
      obtain ⟨xa, t⟩ := x
      simp only [ShapeBody] at hs
      obtain ⟨rfl, hst, hrest⟩ := hs
      obtain ⟨hnot, hdp, hdrest⟩ := hd
      have hl : lookupSub subs xa = some t := by
        rw [hsub]
        exact lookupSub_append_hit (lookupSub_eq_none_iff.2 (fun h => hnot ((hseen xa).2 h)))
      simp only [projectBody, hl, bind_ok, pure_ok] at ha hb
      obtain ⟨x1, hx1, r1, hr1, rfl⟩ := ha
      obtain ⟨x2, hx2, r2, hr2, rfl⟩ := hb
      have h1 := project_split p t (s1.subs xa) (s2.subs xa) x1 x2 hst hdp
        (fun q => by rw [subs_mem', subs_mem', hc]) hx1 hx2
      have h2 := project_split_body rest subs (pre ++ [(xa, t)]) suf' (xa :: seen) s1 s2 r1 r2
        (by simp [hsub]) hrest (by intro y; simp [hseen y]; exact Or.comm) hdrest hc hr1 hr2
      simp only [Trace.scoreAL]; omega
end

end GenjaxVerif.GFI

namespace GenjaxVerif.GFI
open GenjaxVerif

theorem projectL_zero {f : Trace → Except Err Int} :
    ∀ (ts : List Trace) a, (∀ t x, f t = .ok x → x = 0) → projectL f ts = .ok a → a = 0
  | [], a, _, ha => by simp [projectL] at ha; exact ha.symm
  | t :: ts, a, hf, ha => by
    simp only [projectL, bind_ok, pure_ok] at ha
    obtain ⟨x, hx, xs, hxs, rfl⟩ := ha
    rw [hf t x hx, projectL_zero ts xs hf hxs]; rfl

mutual
/-- A selection that selects nothing projects to 0. -/
theorem project_none : ∀ (p : Prog) (t : Trace) (s : Sel) (a : Int),
    (∀ q, Sel.mem s q = false) → project p t s = .ok a → a = 0
  | .dist d, t, s, a, hc, ha => by
    cases t <;> simp only [project] at ha
    · simp only [check_eq_mem_nil, hc] at ha; simp at ha; exact ha.symm
    all_goals simp at ha
  | .static bd, t, s, a, hc, ha => by
    cases t <;> simp only [project] at ha
    case static targs tret subs => exact project_none_body bd subs s a hc ha
    all_goals simp at ha
  | .vmap p axes, t, s, a, hc, ha => by
    cases t <;> simp only [project] at ha
    case vec => exact projectL_zero _ a (fun t x hx => project_none p t s x hc hx) ha
    all_goals simp at ha
  | .scan p len, t, s, a, hc, ha => by
    cases t <;> simp only [project] at ha
    case vec => exact projectL_zero _ a (fun t x hx => project_none p t s x hc hx) ha
    all_goals simp at ha
  | .switch ps, t, s, a, hc, ha => by
    cases t <;> simp only [project] at ha
    case switch => exact project_none_nth ps _ _ s a hc ha
    all_goals simp at ha
  | .mask p, t, s, a, hc, ha => by simp [project] at ha
  | .dimap pre p post, t, s, a, hc, ha => by
    cases t <;> simp only [project] at ha
    case dimap => exact project_none p _ s a hc ha
    all_goals simp at ha

theorem project_none_nth : ∀ (ps : List Prog) (k : Nat) (t : Trace) (s : Sel) (a : Int),
    (∀ q, Sel.mem s q = false) → projectNth ps k t s = .ok a → a = 0
  | [], _, _, _, _, _, ha => by simp [projectNth] at ha
  | p :: _, 0, t, s, a, hc, ha => by simp only [projectNth] at ha; exact project_none p t s a hc ha
  | _ :: ps, k + 1, t, s, a, hc, ha => by simp only [projectNth] at ha; exact project_none_nth ps k t s a hc ha

theorem project_none_body : ∀ (bd : Body) (subs : List (List String × Trace)) (s : Sel) (a : Int),
    (∀ q, Sel.mem s q = false) → projectBody bd subs s = .ok a → a = 0
  | .ret e, subs, s, a, _, ha => by simp [projectBody] at ha; exact ha.symm
  | .bind addr p aes rest, subs, s, a, hc, ha => by
    simp only [projectBody] at ha
    split at ha
    · simp only [bind_ok, pure_ok] at ha
      obtain ⟨x, hx, r, hr, rfl⟩ := ha
      rw [project_none p _ (s.subs addr) x (fun q => by rw [subs_mem', hc]) hx,
        project_none_body rest subs s r hc hr]; rfl
    · simp at ha
end

end GenjaxVerif.GFI
