import GenjaxVerif.Model.GFI
/-! Basic lemmas for model E: the `Except` monad, the generic loops, score arithmetic. -/
namespace GenjaxVerif.GFI
open GenjaxVerif

theorem bind_ok {ε α β} {x : Except ε α} {f : α → Except ε β} {b : β} :
    (x >>= f) = .ok b ↔ ∃ a, x = .ok a ∧ f a = .ok b := by
  cases x with
  | error e => simp [bind, Except.bind]
  | ok a => simp [bind, Except.bind]

theorem map_ok {ε α β} {x : Except ε α} {f : α → β} {b : β} :
    (f <$> x) = .ok b ↔ ∃ a, x = .ok a ∧ f a = b := by
  cases x <;> simp [Functor.map, Except.map]

@[simp] theorem pure_ok {ε α} (a b : α) : (pure a : Except ε α) = .ok b ↔ a = b := by
  simp [pure, Except.pure]

@[simp] theorem throw_ne_ok {ε α} (e : ε) (b : α) : (throw e : Except ε α) ≠ .ok b := by
  simp [throw, throwThe, MonadExceptOf.throw]

@[simp] theorem error_ne_ok {ε α} (e : ε) (b : α) : (Except.error e : Except ε α) ≠ .ok b := by
  intro h; cases h

theorem vmapArgs_ok {m : Mode} {v : Val} {as : List Val} (h : vmapArgs m v = .ok as) :
    argList v = .ok as ∧ m ≠ .regen := by
  unfold vmapArgs at h
  split at h
  · simp at h
  · rename_i hm; exact ⟨h, by simpa using hm⟩

/-! ### vmapLoop -/

theorem vmapLoop_length {f : Nat → Except Err Res} : ∀ {n k rs}, vmapLoop f k n = .ok rs → rs.length = n
  | 0, _, rs, h => by simp [vmapLoop] at h; subst h; rfl
  | n + 1, k, rs, h => by
    simp only [vmapLoop, bind_ok, pure_ok] at h
    obtain ⟨r, _, rs', h2, rfl⟩ := h
    simp [vmapLoop_length h2]

/-- Element-wise characterisation: the j-th result is `f (k + j)`. -/
theorem vmapLoop_get {f : Nat → Except Err Res} :
    ∀ {n k rs}, vmapLoop f k n = .ok rs → ∀ j (hj : j < rs.length), f (k + j) = .ok rs[j]
  | 0, _, rs, h, j, hj => by simp [vmapLoop] at h; subst h; simp at hj
  | n + 1, k, rs, h, j, hj => by
    simp only [vmapLoop, bind_ok, pure_ok] at h
    obtain ⟨r, h1, rs', h2, rfl⟩ := h
    cases j with
    | zero => simpa using h1
    | succ j =>
      have := vmapLoop_get h2 j (by simpa using hj)
      simpa [Nat.add_assoc, Nat.add_comm 1 j] using this

/-- A property of every element result lifts to the list. -/
theorem vmapLoop_forall {f : Nat → Except Err Res} {P : Res → Prop}
    (hf : ∀ k r, f k = .ok r → P r) : ∀ {n k rs}, vmapLoop f k n = .ok rs → ∀ r ∈ rs, P r
  | 0, _, rs, h => by simp [vmapLoop] at h; subst h; simp
  | n + 1, k, rs, h => by
    simp only [vmapLoop, bind_ok, pure_ok] at h
    obtain ⟨r, h1, rs', h2, rfl⟩ := h
    intro x hx
    simp at hx
    rcases hx with rfl | hx
    · exact hf _ _ h1
    · exact vmapLoop_forall hf h2 x hx

/-! ### scanLoop -/

theorem scanLoop_forall {f : Nat → KeyPath → Val → Val → Except Err Res} {P : Res → Prop}
    (hf : ∀ k key c x r, f k key c x = .ok r → P r) :
    ∀ {xs k key carry rs final}, scanLoop f k key carry xs = .ok (rs, final) → ∀ r ∈ rs, P r
  | [], _, _, _, rs, final, h => by simp [scanLoop] at h; obtain ⟨rfl, _⟩ := h; simp
  | x :: xs, k, key, carry, rs, final, h => by
    simp only [scanLoop, bind_ok] at h
    obtain ⟨r, h1, h2⟩ := h
    split at h2
    · simp only [bind_ok, pure_ok] at h2
      obtain ⟨⟨rs', fin'⟩, h3, h4⟩ := h2
      simp at h4
      obtain ⟨rfl, rfl⟩ := h4
      intro y hy
      simp at hy
      rcases hy with rfl | hy
      · exact hf _ _ _ _ _ h1
      · exact scanLoop_forall hf h3 y hy
    · simp at h2

/-! ### score arithmetic -/

theorem scoreL_append (a b : List Trace) : Trace.scoreL (a ++ b) = Trace.scoreL a + Trace.scoreL b := by
  induction a with
  | nil => simp [Trace.scoreL]
  | cons t ts ih => simp [Trace.scoreL, ih, Int.add_assoc]

theorem scoreAL_append (a b : List (List String × Trace)) :
    Trace.scoreAL (a ++ b) = Trace.scoreAL a + Trace.scoreAL b := by
  induction a with
  | nil => simp [Trace.scoreAL]
  | cons t ts ih => obtain ⟨x, t⟩ := t; simp [Trace.scoreAL, ih, Int.add_assoc]

theorem sumW_cons (r : Res) (rs : List Res) : sumW (r :: rs) = r.w + sumW rs := by
  simp [sumW]

theorem scoreL_map_cons (r : Res) (rs : List Res) :
    Trace.scoreL ((r :: rs).map (·.tr)) = r.tr.score + Trace.scoreL (rs.map (·.tr)) := by
  simp [Trace.scoreL]

/-- If every element's weight is its trace's score, the summed weight is the summed score. -/
theorem sumW_eq_scoreL {rs : List Res} (h : ∀ r ∈ rs, r.w = r.tr.score) :
    sumW rs = Trace.scoreL (rs.map (·.tr)) := by
  induction rs with
  | nil => simp [sumW, Trace.scoreL]
  | cons r rs ih =>
    rw [sumW_cons, scoreL_map_cons, h r (by simp), ih (fun x hx => h x (by simp [hx]))]

theorem sumW_eq_zero {rs : List Res} (h : ∀ r ∈ rs, r.w = 0) : sumW rs = 0 := by
  induction rs with
  | nil => simp [sumW]
  | cons r rs ih => rw [sumW_cons, h r (by simp), ih (fun x hx => h x (by simp [hx]))]; rfl

end GenjaxVerif.GFI

namespace GenjaxVerif.GFI
open GenjaxVerif

theorem scanLoop_get {f : Nat → KeyPath → Val → Val → Except Err Res} :
    ∀ {xs k key carry rs final}, scanLoop f k key carry xs = .ok (rs, final) →
      rs.length = xs.length ∧
      ∀ j (hj : j < rs.length) (hx : j < xs.length), ∃ key' c', f (k + j) key' c' xs[j] = .ok rs[j]
  | [], _, _, _, rs, final, h => by simp [scanLoop] at h; obtain ⟨rfl, _⟩ := h; simp
  | x :: xs, k, key, carry, rs, final, h => by
    simp only [scanLoop, bind_ok] at h
    obtain ⟨r, h1, h2⟩ := h
    split at h2
    · simp only [bind_ok, pure_ok] at h2
      obtain ⟨⟨rs', fin'⟩, h3, h4⟩ := h2
      simp at h4
      obtain ⟨rfl, rfl⟩ := h4
      obtain ⟨hl, hg⟩ := scanLoop_get h3
      refine ⟨by simp [hl], ?_⟩
      intro j hj hx
      cases j with
      | zero => exact ⟨_, _, by simpa using h1⟩
      | succ j =>
        obtain ⟨key', c', h5⟩ := hg j (by simpa using hj) (by simpa using hx)
        exact ⟨key', c', by simpa [Nat.add_assoc, Nat.add_comm 1 j] using h5⟩
    · simp at h2

/-- Element-wise "weight = new score − old score" sums up. -/
theorem sumW_sub : ∀ {rs : List Res} {olds : List Trace}, rs.length = olds.length →
    (∀ j (h1 : j < rs.length) (h2 : j < olds.length), rs[j].w = rs[j].tr.score - olds[j].score) →
    sumW rs = Trace.scoreL (rs.map (·.tr)) - Trace.scoreL olds
  | [], [], _, _ => by simp [sumW, Trace.scoreL]
  | [], _ :: _, hl, _ => by simp at hl
  | _ :: _, [], hl, _ => by simp at hl
  | r :: rs, o :: olds, hl, h => by
    have h0 := h 0 (by simp) (by simp)
    have ih := sumW_sub (rs := rs) (olds := olds) (by simpa using hl)
      (fun j h1 h2 => by
        have := h (j + 1) (by simpa using h1) (by simpa using h2)
        simpa only [List.getElem_cons_succ] using this)
    simp only [List.getElem_cons_zero] at h0
    rw [sumW_cons, scoreL_map_cons, ih, h0]
    simp only [Trace.scoreL]
    omega

theorem lookupSub_eq_none_iff {l : List (List String × Trace)} {x : List String} :
    lookupSub l x = none ↔ x ∉ l.map (·.1) := by
  unfold lookupSub
  simp only [Option.map_eq_none_iff, List.find?_eq_none, List.mem_map, not_exists, not_and]
  constructor
  · intro h p hp hpx
    have := h p hp
    simp [hpx] at this
  · intro h p hp
    have := h p hp
    simpa using this

theorem lookupSub_append_hit {pre suf : List (List String × Trace)} {a : List String} {t : Trace}
    (h : lookupSub pre a = none) : lookupSub (pre ++ (a, t) :: suf) a = some t := by
  unfold lookupSub at *
  simp only [Option.map_eq_none_iff] at h
  simp [List.find?_append, h]

/-- `lookupSub` only depends on the address column. -/
theorem lookupSub_none_of_keys {a b : List (List String × Trace)} {x : List String}
    (hk : a.map (·.1) = b.map (·.1)) (h : lookupSub a x = none) : lookupSub b x = none := by
  rw [lookupSub_eq_none_iff] at *
  rwa [← hk]

end GenjaxVerif.GFI
