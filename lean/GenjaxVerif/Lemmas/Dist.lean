import GenjaxVerif.Model.Dist
/-!
  Helper lemmas for the distribution-wrapper model: inversion of the `Except` pipelines of
  `estimate_logpdf` / `random_weighted`, the sum over leaves, Python argument binding.
-/
namespace GenjaxVerif.Dist

section ExceptSimp
variable {ε α β : Type}
@[simp] theorem bind_ok (x : α) (f : α → Except ε β) : (Except.ok x >>= f) = f x := rfl
@[simp] theorem bind_error (e : ε) (f : α → Except ε β) :
    ((Except.error e : Except ε α) >>= f) = Except.error e := rfl
@[simp] theorem map_ok (x : α) (f : α → β) : f <$> (Except.ok x : Except ε α) = Except.ok (f x) := rfl
@[simp] theorem map_error (e : ε) (f : α → β) :
    f <$> (Except.error e : Except ε α) = Except.error e := rfl
@[simp] theorem pure_ok (x : α) : (pure x : Except ε α) = Except.ok x := rfl
end ExceptSimp

@[simp] theorem LP.total_scalar (x : Int) : (LP.scalar x).total = x := rfl
@[simp] theorem LP.total_arr (xs : List Int) : (LP.arr xs).total = xs.sum := rfl

theorem LP.total_arr_append (xs ys : List Int) :
    (LP.arr (xs ++ ys)).total = (LP.arr xs).total + (LP.arr ys).total := by
  simp [List.sum_append]

section
variable {K A V : Type}

theorem estimateLogpdf_eq (d : Base K A V) (v : V) (a : A) :
    estimateLogpdf d v a = (d.lp v a).map LP.total := by
  unfold estimateLogpdf
  cases d.lp v a <;> rfl

theorem estimateLogpdf_ok {d : Base K A V} {v : V} {a : A} {w : Int} :
    estimateLogpdf d v a = .ok w ↔ ∃ l, d.lp v a = .ok l ∧ w = l.total := by
  rw [estimateLogpdf_eq]
  cases h : d.lp v a with
  | error e => simp [Except.map]
  | ok l => simp [Except.map]; exact eq_comm

theorem estimateLogpdf_error {d : Base K A V} {v : V} {a : A} {e : Err} :
    estimateLogpdf d v a = .error e ↔ d.lp v a = .error e := by
  rw [estimateLogpdf_eq]
  cases h : d.lp v a <;> simp [Except.map]

theorem randomWeighted_ok {d : Base K A V} {k : K} {a : A} {w : Int} {v : V} :
    randomWeighted d k a = .ok (w, v) ↔
      d.sample k a = .ok v ∧ ∃ l, d.lp v a = .ok l ∧ w = l.total := by
  unfold randomWeighted
  cases hs : d.sample k a with
  | error e => simp
  | ok v' =>
    simp only [bind_ok]
    cases he : estimateLogpdf d v' a with
    | error e =>
      have := (estimateLogpdf_error).1 he
      simp only [pure_ok]
      constructor
      · intro h; cases h
      · rintro ⟨h1, l, h2, _⟩
        cases h1
        rw [this] at h2; cases h2
    | ok w' =>
      obtain ⟨l, hl, hw⟩ := (estimateLogpdf_ok).1 he
      simp only [pure_ok]
      constructor
      · intro h
        cases h
        exact ⟨rfl, l, hl, hw⟩
      · rintro ⟨h1, l2, h2, h3⟩
        cases h1
        rw [hl] at h2; cases h2
        subst hw; subst h3; rfl

theorem simulate_ok {d : Base K A V} {k : K} {a : A} {tr : Tr A V} :
    simulate d k a = .ok tr ↔ randomWeighted d k a = .ok (tr.score, tr.value) ∧ tr.args = a := by
  unfold simulate
  cases h : randomWeighted d k a with
  | error e => simp
  | ok p =>
    obtain ⟨w, v⟩ := p
    obtain ⟨ta, tv, ts⟩ := tr
    simp only [bind_ok, pure_ok, Except.ok.injEq, Tr.mk.injEq, Prod.mk.injEq]
    constructor
    · rintro ⟨h1, h2, h3⟩; exact ⟨⟨h3, h2⟩, h1.symm⟩
    · rintro ⟨⟨h3, h2⟩, h1⟩; exact ⟨h1.symm, h2, h3⟩

end

/-! ### Python argument binding -/

theorem lookup_nil (n : String) : List.lookup n ([] : Kw) = none := rfl

/-- Calling positionally with the fully bound parameter list binds to the same list. -/
theorem bindGo_full (ps : List (String × Option Int)) :
    ∀ (pos : List Int) (kw : Kw) (full : List Int),
      bindGo ps pos kw = .ok full → bindGo ps full [] = .ok full := by
  induction ps with
  | nil =>
    intro pos kw full h
    cases pos with
    | nil => simp [bindGo] at h; subst h; rfl
    | cons x xs => simp [bindGo] at h
  | cons p ps ih =>
    obtain ⟨n, dflt⟩ := p
    intro pos kw full h
    have step : ∀ (x : Int) (r : List Int), bindGo ps r [] = .ok r →
        bindGo ((n, dflt) :: ps) (x :: r) [] = .ok (x :: r) := by
      intro x r hr
      simp [bindGo, List.lookup, hr]
    have inv : ∀ (x : Int) (pos' : List Int),
        (do let r ← bindGo ps pos' kw; pure (x :: r) : Except Err (List Int)) = .ok full →
        bindGo ((n, dflt) :: ps) full [] = .ok full := by
      intro x pos' h
      cases hr : bindGo ps pos' kw with
      | error e => rw [hr] at h; simp at h
      | ok r =>
        rw [hr] at h
        simp only [bind_ok, pure_ok, Except.ok.injEq] at h
        subst h
        exact step x r (ih pos' kw r hr)
    cases pos with
    | cons x xs =>
      simp only [bindGo] at h
      cases hl : List.lookup n kw with
      | some v => rw [hl] at h; simp at h
      | none => rw [hl] at h; exact inv x xs h
    | nil =>
      simp only [bindGo] at h
      cases hl : List.lookup n kw with
      | some v => rw [hl] at h; exact inv v [] h
      | none =>
        rw [hl] at h
        cases dflt with
        | none => simp at h
        | some v => exact inv v [] h

theorem bind_full {params : List (String × Option Int)} {pos : List Int} {kw : Kw} {full : List Int}
    (h : bind params pos kw = .ok full) : bind params full [] = .ok full := by
  unfold bind at h ⊢
  by_cases hc : kw.all (fun p => params.any (fun q => q.1 == p.1)) = true
  · rw [if_pos hc] at h
    simp only [List.all_nil, if_true]
    exact bindGo_full params pos kw full h
  · rw [if_neg hc] at h; cases h

theorem asInts_map_int (xs : List Int) : asInts (xs.map PyArg.int) = .ok xs := by
  induction xs with
  | nil => rfl
  | cons x r ih => simp [asInts, ih]

end GenjaxVerif.Dist
