import GenjaxVerif.Lemmas.GFIValues
import GenjaxVerif.Lemmas.GFIUpdate
/-! Unconstrained addresses keep their previous values under update. -/
namespace GenjaxVerif.GFI
open GenjaxVerif CMap

mutual
/-- `Kept c told tnew`: at every primitive choice that `c` does not validly constrain, `tnew`
    holds the value `told` held (same structure on both sides, the constraint narrowed along
    the address as lookups do). -/
def Kept : CMap → Trace → Trace → Prop
  | c, .dist _ _ ov _, .dist _ _ nv _ => validValue c = none → nv = ov
  | c, .static _ _ os, .static _ _ ns => KeptAL c os ns
  | c, .vec _ _ os, .vec _ _ ns => KeptL c 0 os ns
  | c, .switch _ oi os, .switch _ ni ns => oi = ni ∧ Kept c os ns
  | c, .mask _ oi, .mask _ ni => Kept c oi ni
  | c, .dimap _ _ oi, .dimap _ _ ni => Kept c oi ni
  | _, _, _ => False
def KeptL (c : CMap) (k : Nat) : List Trace → List Trace → Prop
  | [], [] => True
  | o :: os, n :: ns => Kept (CMap.sub c (.i k)) o n ∧ KeptL c (k + 1) os ns
  | _, _ => False
def KeptAL (c : CMap) : List (List String × Trace) → List (List String × Trace) → Prop
  | [], [] => True
  | (a, o) :: os, (b, n) :: ns => a = b ∧ Kept (CMap.subStatic c a) o n ∧ KeptAL c os ns
  | _, _ => False
end

theorem keptAL_snoc (c : CMap) : ∀ (os ns : List (List String × Trace)) (a : List String) (o n : Trace),
    KeptAL c os ns → Kept (CMap.subStatic c a) o n → KeptAL c (os ++ [(a, o)]) (ns ++ [(a, n)])
  | [], [], a, o, n, _, h => by simp [KeptAL, h]
  | [], _ :: _, _, _, _, h, _ => by simp [KeptAL] at h
  | _ :: _, [], _, _, _, h, _ => by simp [KeptAL] at h
  | (x, xo) :: os, (y, yn) :: ns, a, o, n, h, hk => by
    simp only [KeptAL] at h
    simp only [List.cons_append, KeptAL]
    exact ⟨h.1, h.2.1, keptAL_snoc c os ns a o n h.2.2 hk⟩

theorem keptL_of_get (c : CMap) : ∀ (os ns : List Trace) (k : Nat), os.length = ns.length →
    (∀ j (h1 : j < os.length) (h2 : j < ns.length), Kept (CMap.sub c (.i (k + j))) os[j] ns[j]) → KeptL c k os ns
  | [], [], _, _, _ => trivial
  | [], _ :: _, _, hl, _ => by simp at hl
  | _ :: _, [], _, hl, _ => by simp at hl
  | o :: os, n :: ns, k, hl, h => by
    refine ⟨?_, keptL_of_get c os ns (k + 1) (by simpa using hl) (fun j h1 h2 => ?_)⟩
    · have := h 0 (by simp) (by simp)
      simpa only [Nat.add_zero, List.getElem_cons_zero] using this
    · have := h (j + 1) (by simpa using h1) (by simpa using h2)
      simpa only [List.getElem_cons_succ, Nat.add_assoc, Nat.add_comm 1 j] using this

theorem leaf_upd_kept {ds d i r told} (h : leaf ds .upd d i = .ok r) (ho : i.old = some told) :
    Kept i.c told r.tr := by
  unfold leaf at h
  simp only [bind_ok, oldOf, ho] at h
  obtain ⟨t, ht, h2⟩ := h
  simp at ht; subst ht
  split at h2
  · split at h2
    · simp at h2; subst h2; intro _; rfl
    · rename_i f v hc
      simp at h2; subst h2; intro hv
      cases f <;> simp [validValue, hc] at hv ⊢
    · rename_i v hc; simp at h2; subst h2; intro hv; simp [validValue, hc] at hv
  · simp at h2

mutual
theorem upd_kept (ds : DistSem) : ∀ (p : Prog) (i : In) (r : Res) (told : Trace),
    run ds .upd p i = .ok r → i.old = some told → Shape p told → Safe i.changed p → Kept i.c told r.tr
  | .dist d, i, r, told, h, ho, _, _ => by simp only [run] at h; exact leaf_upd_kept h ho
  | .static b, i, r, told, h, ho, hs, hsafe => by
    simp only [run, staticRun, bind_ok, pure_ok] at h
    obtain ⟨env, _, olds, h2, ⟨st, v⟩, h3, rfl⟩ := h
    cases told <;> simp only [Shape] at hs
    rename_i targs tret tsubs
    simp [staticOlds, ho] at h2; subst h2
    have := upd_kept_body ds b i tsubs env {} st v [] tsubs h3 (by simp) hs (by simp) (by simp [KeptAL]) hsafe
    simpa [Kept] using this
  | .vmap p axes, i, r, told, h, ho, hs, hsafe => by
    simp only [run, vmapRun, bind_ok, pure_ok] at h
    obtain ⟨as, _, n, _, _, hlen, rs, h3, rfl⟩ := h
    cases told <;> simp only [Shape] at hs
    rename_i targs tret elems
    simp [checkOldLen, ho] at hlen
    have hl := vmapLoop_length h3
    simp only [vecRes, Kept]
    refine keptL_of_get i.c elems _ 0 (by simp; omega) ?_
    intro j h1 h2
    have h2' : j < rs.length := by simpa using h2
    have hj := vmapLoop_get h3 j h2'
    simp only [bind_ok, Nat.zero_add] at hj
    obtain ⟨i', hi', hr⟩ := hj
    simp only [vmapElem, bind_ok, pure_ok] at hi'
    obtain ⟨ea, _, o, ho', rfl⟩ := hi'
    simp [nthOld, ho, List.getElem?_eq_getElem h1] at ho'
    subst ho'
    simpa [List.getElem_map] using upd_kept ds p _ _ elems[j] hr rfl (hs _ (List.getElem_mem h1)) hsafe
  | .scan p len, i, r, told, h, ho, hs, hsafe => by
    simp only [run, scanRun, bind_ok, pure_ok] at h
    obtain ⟨⟨carry, xs⟩, _, _, hlen, ⟨rs, fin⟩, h3, ys, _, rfl⟩ := h
    cases told <;> simp only [Shape] at hs
    rename_i targs tret elems
    simp [checkOldLen, ho] at hlen
    dsimp only at hlen h3
    obtain ⟨hl, hg⟩ := scanLoop_get h3
    simp only [vecRes, Kept]
    refine keptL_of_get i.c elems _ 0 (by simp; omega) ?_
    intro j h1 h2
    have h2' : j < rs.length := by simpa using h2
    obtain ⟨key', c', hj⟩ := hg j h2' (by omega)
    simp only [bind_ok, Nat.zero_add] at hj
    obtain ⟨i', hi', hr⟩ := hj
    simp only [scanElem, bind_ok, pure_ok] at hi'
    obtain ⟨o, ho', rfl⟩ := hi'
    simp [nthOld, ho, List.getElem?_eq_getElem h1] at ho'
    subst ho'
    simpa [List.getElem_map] using
      upd_kept ds p _ _ elems[j] hr rfl (hs _ (List.getElem_mem h1)) (by simpa [Safe] using hsafe)
  | .switch ps, i, r, told, h, ho, hs, hsafe => by
    simp only [run, switchRun, bind_ok] at h
    obtain ⟨⟨idx, ba⟩, _, h2⟩ := h
    cases told <;> simp only [Shape] at hs
    rename_i targs oidx osub
    simp only [Safe] at hsafe
    simp only [ho, hsafe.1] at h2
    simp only [Bool.false_eq_true, if_false] at h2
    split at h2
    · simp at h2
    · rename_i hne
      simp only [bind_ok, pure_ok] at h2
      obtain ⟨r', h4, rfl⟩ := h2
      have hidx : oidx = idx := by simpa using hne
      subst hidx
      simp only [Kept]
      exact ⟨trivial, upd_kept_nth ds ps oidx { i with old := some osub, args := ba, changed := false } r' osub h4 rfl hs
        hsafe.2⟩
  | .mask p, i, r, told, h, ho, hs, hsafe => by
    simp only [run, maskRun, bind_ok] at h
    obtain ⟨⟨check, iargs⟩, _, h2⟩ := h
    cases told <;> simp only [Shape] at hs
    rename_i pre inner
    simp only [ho, bind_ok, pure_ok] at h2
    obtain ⟨r', h4, rfl⟩ := h2
    simpa [Kept] using upd_kept ds p _ r' inner h4 rfl hs (by simpa [Safe] using hsafe)
  | .dimap pre p post, i, r, told, h, ho, hs, hsafe => by
    simp only [run, dimapRun, bind_ok, pure_ok] at h
    obtain ⟨as, _, ia, _, o, ho', r', h4, rv, _, rfl⟩ := h
    cases told <;> simp only [Shape] at hs
    rename_i targs tret inner
    simp [dimapOld, ho] at ho'; subst ho'
    simpa [Kept] using upd_kept ds p _ r' inner h4 rfl hs (by simpa [Safe] using hsafe)

theorem upd_kept_nth (ds : DistSem) : ∀ (ps : List Prog) (k : Nat) (i : In) (r : Res) (told : Trace),
    runNth ds .upd ps k i = .ok r → i.old = some told → ShapeNth ps k told → SafeL i.changed ps →
    Kept i.c told r.tr
  | [], _, _, _, _, h, _, _, _ => by simp [runNth] at h
  | p :: _, 0, i, r, told, h, ho, hs, hsafe => by
    simp only [runNth] at h; exact upd_kept ds p i r told h ho (by simpa [ShapeNth] using hs) hsafe.1
  | _ :: ps, k + 1, i, r, told, h, ho, hs, hsafe => by
    simp only [runNth] at h; exact upd_kept_nth ds ps k i r told h ho (by simpa [ShapeNth] using hs) hsafe.2

theorem upd_kept_body (ds : DistSem) : ∀ (b : Body) (i : In) (olds env) (st st' : SState) (v : Val)
    (pre suf : List (List String × Trace)),
    runBody ds .upd b i olds env st = .ok (st', v) → olds = pre ++ suf → ShapeBody b suf →
    st.subs.map (·.1) = pre.map (·.1) → KeptAL i.c pre st.subs → SafeBody i.changed b →
    KeptAL i.c olds st'.subs
  | .ret e, i, olds, env, st, st', v, pre, suf, h, ho, hs, _, hk, _ => by
    simp only [runBody, bind_ok, pure_ok] at h
    obtain ⟨_, _, h2⟩ := h
    simp at h2; obtain ⟨rfl, _⟩ := h2
    simp only [ShapeBody] at hs
    subst hs; simpa [ho] using hk
  | .bind addr p aes rest, i, olds, env, st, st', v, pre, suf, h, ho, hs, hkeys, hk, hsafe => by
    simp only [runBody, bind_ok] at h
    obtain ⟨a, _, i', hi', r, h3, h4⟩ := h
    cases suf with
    | nil => simp [ShapeBody] at hs
    | cons x suf' =>
      obtain ⟨xa, t⟩ := x
      simp only [ShapeBody] at hs
      obtain ⟨rfl, hst, hrest⟩ := hs
      obtain ⟨hn, t', hl, hio, hch⟩ := bindIn_upd hi'
      have hl' : lookupSub olds xa = some t := by
        rw [ho]; exact lookupSub_append_hit (lookupSub_none_of_keys hkeys hn)
      rw [hl'] at hl; cases hl
      have hr := upd_kept ds p i' r t h3 hio hst (by rw [hch]; exact hsafe.1)
      rw [bindIn_c hi'] at hr
      exact upd_kept_body ds rest i olds _ _ st' v (pre ++ [(xa, t)]) suf' h4 (by simp [ho]) hrest
        (by simp [bindOut, hkeys]) (by simpa [bindOut] using keptAL_snoc i.c pre st.subs xa t r.tr hk hr) hsafe.2
end

end GenjaxVerif.GFI

namespace GenjaxVerif.GFI
open GenjaxVerif CMap

mutual
/-- `KeptS s told tnew`: every primitive choice the selection does not select keeps its value
    (index levels are transparent to selections). -/
def KeptS : Sel → Trace → Trace → Prop
  | s, .dist _ _ ov _, .dist _ _ nv _ => s.check = false → nv = ov
  | s, .static _ _ os, .static _ _ ns => KeptSAL s os ns
  | s, .vec _ _ os, .vec _ _ ns => KeptSL s os ns
  | s, .switch _ _ os, .switch _ _ ns => KeptS s os ns
  | s, .mask _ oi, .mask _ ni => KeptS s oi ni
  | s, .dimap _ _ oi, .dimap _ _ ni => KeptS s oi ni
  | _, _, _ => False
def KeptSL (s : Sel) : List Trace → List Trace → Prop
  | [], [] => True
  | o :: os, n :: ns => KeptS s o n ∧ KeptSL s os ns
  | _, _ => False
def KeptSAL (s : Sel) : List (List String × Trace) → List (List String × Trace) → Prop
  | [], [] => True
  | (a, o) :: os, (b, n) :: ns => a = b ∧ KeptS (s.subs a) o n ∧ KeptSAL s os ns
  | _, _ => False
end

theorem keptSAL_snoc (s : Sel) : ∀ (os ns : List (List String × Trace)) (a : List String) (o n : Trace),
    KeptSAL s os ns → KeptS (s.subs a) o n → KeptSAL s (os ++ [(a, o)]) (ns ++ [(a, n)])
  | [], [], a, o, n, _, h => by simp [KeptSAL, h]
  | [], _ :: _, _, _, _, h, _ => by simp [KeptSAL] at h
  | _ :: _, [], _, _, _, h, _ => by simp [KeptSAL] at h
  | (x, xo) :: os, (y, yn) :: ns, a, o, n, h, hk => by
    simp only [KeptSAL] at h
    simp only [List.cons_append, KeptSAL]
    exact ⟨h.1, h.2.1, keptSAL_snoc s os ns a o n h.2.2 hk⟩

theorem keptSL_of_get (s : Sel) : ∀ (os ns : List Trace), os.length = ns.length →
    (∀ j (h1 : j < os.length) (h2 : j < ns.length), KeptS s os[j] ns[j]) → KeptSL s os ns
  | [], [], _, _ => trivial
  | [], _ :: _, hl, _ => by simp at hl
  | _ :: _, [], hl, _ => by simp at hl
  | o :: os, n :: ns, hl, h => by
    refine ⟨?_, keptSL_of_get s os ns (by simpa using hl) (fun j h1 h2 => ?_)⟩
    · have := h 0 (by simp) (by simp)
      simpa only [List.getElem_cons_zero] using this
    · have := h (j + 1) (by simpa using h1) (by simpa using h2)
      simpa only [List.getElem_cons_succ] using this

theorem leaf_regen_kept {ds d i r told} (h : leaf ds .regen d i = .ok r) (ho : i.old = some told) :
    KeptS i.sel told r.tr := by
  unfold leaf at h
  simp only [bind_ok, oldOf, ho] at h
  obtain ⟨t, ht, h2⟩ := h
  simp at ht; subst ht
  split at h2
  · split at h2
    · rename_i hc; simp at h2; subst h2; intro hs; simp [hs] at hc
    · simp at h2; subst h2; intro _; rfl
  · simp at h2

theorem bindIn_sel {m i olds st addr a i'} (h : bindIn m i olds st addr a = .ok i') :
    i'.sel = i.sel.subs addr := by
  unfold bindIn at h
  split at h
  · simp at h
  · split at h
    · simp at h
    · split at h
      · simp at h
      · simp at h; subst h; rfl

mutual
theorem regen_kept (ds : DistSem) : ∀ (p : Prog) (i : In) (r : Res) (told : Trace),
    run ds .regen p i = .ok r → i.old = some told → Shape p told → KeptS i.sel told r.tr
  | .dist d, i, r, told, h, ho, _ => by simp only [run] at h; exact leaf_regen_kept h ho
  | .static b, i, r, told, h, ho, hs => by
    simp only [run, staticRun, bind_ok, pure_ok] at h
    obtain ⟨env, _, olds, h2, ⟨st, v⟩, h3, rfl⟩ := h
    cases told <;> simp only [Shape] at hs
    rename_i targs tret tsubs
    simp [staticOlds, ho] at h2; subst h2
    have := regen_kept_body ds b i tsubs env {} st v [] tsubs h3 (by simp) hs (by simp) (by simp [KeptSAL])
    simpa [KeptS] using this
  | .vmap p axes, i, r, told, h, ho, hs => by
    simp only [run, vmapRun, bind_ok, pure_ok] at h
    obtain ⟨as, _, n, _, _, hlen, rs, h3, rfl⟩ := h
    cases told <;> simp only [Shape] at hs
    rename_i targs tret elems
    simp [checkOldLen, ho] at hlen
    have hl := vmapLoop_length h3
    simp only [vecRes, KeptS]
    refine keptSL_of_get i.sel elems _ (by simp; omega) ?_
    intro j h1 h2
    have h2' : j < rs.length := by simpa using h2
    have hj := vmapLoop_get h3 j h2'
    simp only [bind_ok, Nat.zero_add] at hj
    obtain ⟨i', hi', hr⟩ := hj
    simp only [vmapElem, bind_ok, pure_ok] at hi'
    obtain ⟨ea, _, o, ho', rfl⟩ := hi'
    simp [nthOld, ho, List.getElem?_eq_getElem h1] at ho'
    subst ho'
    simpa [List.getElem_map] using regen_kept ds p _ _ elems[j] hr rfl (hs _ (List.getElem_mem h1))
  | .scan p len, i, r, told, h, ho, hs => by
    simp only [run, scanRun, bind_ok, pure_ok] at h
    obtain ⟨⟨carry, xs⟩, _, _, hlen, ⟨rs, fin⟩, h3, ys, _, rfl⟩ := h
    cases told <;> simp only [Shape] at hs
    rename_i targs tret elems
    simp [checkOldLen, ho] at hlen
    dsimp only at hlen h3
    obtain ⟨hl, hg⟩ := scanLoop_get h3
    simp only [vecRes, KeptS]
    refine keptSL_of_get i.sel elems _ (by simp; omega) ?_
    intro j h1 h2
    have h2' : j < rs.length := by simpa using h2
    obtain ⟨key', c', hj⟩ := hg j h2' (by omega)
    simp only [bind_ok, Nat.zero_add] at hj
    obtain ⟨i', hi', hr⟩ := hj
    simp only [scanElem, bind_ok, pure_ok] at hi'
    obtain ⟨o, ho', rfl⟩ := hi'
    simp [nthOld, ho, List.getElem?_eq_getElem h1] at ho'
    subst ho'
    simpa [List.getElem_map] using regen_kept ds p _ _ elems[j] hr rfl (hs _ (List.getElem_mem h1))
  | .switch ps, i, r, told, h, ho, hs => by
    simp only [run, switchRun, bind_ok] at h
    obtain ⟨_, _, h2⟩ := h
    simp at h2
  | .mask p, i, r, told, h, ho, hs => by
    simp only [run, maskRun, bind_ok] at h
    obtain ⟨_, _, h2⟩ := h
    simp at h2
  | .dimap pre p post, i, r, told, h, ho, hs => by
    simp only [run, dimapRun, bind_ok, pure_ok] at h
    obtain ⟨as, _, ia, _, o, ho', r', h4, rv, _, rfl⟩ := h
    cases told <;> simp only [Shape] at hs
    rename_i targs tret inner
    simp [dimapOld, ho] at ho'; subst ho'
    simpa [KeptS] using regen_kept ds p _ r' inner h4 rfl hs

theorem regen_kept_body (ds : DistSem) : ∀ (b : Body) (i : In) (olds env) (st st' : SState) (v : Val)
    (pre suf : List (List String × Trace)),
    runBody ds .regen b i olds env st = .ok (st', v) → olds = pre ++ suf → ShapeBody b suf →
    st.subs.map (·.1) = pre.map (·.1) → KeptSAL i.sel pre st.subs →
    KeptSAL i.sel olds st'.subs
  | .ret e, i, olds, env, st, st', v, pre, suf, h, ho, hs, _, hk => by
    simp only [runBody, bind_ok, pure_ok] at h
    obtain ⟨_, _, h2⟩ := h
    simp at h2; obtain ⟨rfl, _⟩ := h2
    simp only [ShapeBody] at hs
    subst hs; simpa [ho] using hk
  | .bind addr p aes rest, i, olds, env, st, st', v, pre, suf, h, ho, hs, hkeys, hk => by
    simp only [runBody, bind_ok] at h
    obtain ⟨a, _, i', hi', r, h3, h4⟩ := h
    cases suf with
    | nil => simp [ShapeBody] at hs
    | cons x suf' =>
      obtain ⟨xa, t⟩ := x
      simp only [ShapeBody] at hs
      obtain ⟨rfl, hst, hrest⟩ := hs
      obtain ⟨hn, t', hl, hio, hch⟩ := bindIn_regen hi'
      have hl' : lookupSub olds xa = some t := by
        rw [ho]; exact lookupSub_append_hit (lookupSub_none_of_keys hkeys hn)
      rw [hl'] at hl; cases hl
      have hr := regen_kept ds p i' r t h3 hio hst
      rw [bindIn_sel hi'] at hr
      exact regen_kept_body ds rest i olds _ _ st' v (pre ++ [(xa, t)]) suf' h4 (by simp [ho]) hrest
        (by simp [bindOut, hkeys]) (by simpa [bindOut] using keptSAL_snoc i.sel pre st.subs xa t r.tr hk hr)
end

end GenjaxVerif.GFI
