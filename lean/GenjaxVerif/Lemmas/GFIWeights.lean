import GenjaxVerif.Lemmas.GFIBasic
/-! Weight laws of model E, each by one mutual structural induction over programs. -/
namespace GenjaxVerif.GFI
open GenjaxVerif

/-! ### assess returns the score of the trace it rebuilds; simulate has weight 0 -/

theorem leaf_assess_w {ds d i r} (h : leaf ds .assess d i = .ok r) : r.w = r.tr.score := by
  unfold leaf at h
  simp only at h
  split at h
  · simp at h
  · simp at h; subst h; rfl
  · simp at h; subst h; rfl

mutual
theorem assess_w (ds : DistSem) : ∀ (p : Prog) (i : In) (r : Res), run ds .assess p i = .ok r → r.w = r.tr.score
  | .dist d, i, r, h => by
    simp only [run] at h
    exact leaf_assess_w h
  | .static b, i, r, h => by
    simp only [run, staticRun, bind_ok, pure_ok] at h
    obtain ⟨env, _, olds, _, ⟨st, v⟩, h3, rfl⟩ := h
    have := assess_w_body ds b i olds env {} st v h3
    simp [Trace.score] at this ⊢
    simpa [Trace.scoreAL] using this
  | .vmap p axes, i, r, h => by
    simp only [run, vmapRun, bind_ok, pure_ok] at h
    obtain ⟨as, _, n, _, _, _, rs, h3, rfl⟩ := h
    have hall : ∀ r ∈ rs, r.w = r.tr.score :=
      vmapLoop_forall (P := fun r => r.w = r.tr.score) (fun k r hk => by
        simp only [bind_ok] at hk
        obtain ⟨i', _, h'⟩ := hk
        exact assess_w ds p i' r h') h3
    simp [vecRes, Trace.score, sumW_eq_scoreL hall]
  | .scan p len, i, r, h => by
    simp only [run, scanRun, bind_ok, pure_ok] at h
    obtain ⟨⟨carry, xs⟩, _, _, _, ⟨rs, fin⟩, h3, ys, _, rfl⟩ := h
    have hall : ∀ r ∈ rs, r.w = r.tr.score :=
      scanLoop_forall (P := fun r => r.w = r.tr.score) (fun k key c x r hk => by
        simp only [bind_ok] at hk
        obtain ⟨i', _, h'⟩ := hk
        exact assess_w ds p i' r h') h3
    simp [vecRes, Trace.score, sumW_eq_scoreL hall]
  | .switch ps, i, r, h => by
    simp only [run, switchRun, bind_ok, pure_ok] at h
    obtain ⟨⟨idx, ba⟩, _, r', h2, rfl⟩ := h
    simp [Trace.score, assess_w_nth ds ps idx _ r' h2]
  | .mask p, i, r, h => by
    simp only [run, maskRun, bind_ok, pure_ok] at h
    obtain ⟨⟨check, iargs⟩, _, r', h2, rfl⟩ := h
    have := assess_w ds p _ r' h2
    cases check <;> simp [Trace.score, this]
  | .dimap pre p post, i, r, h => by
    simp only [run, dimapRun, bind_ok, pure_ok] at h
    obtain ⟨as, _, ia, _, o, _, r', h4, rv, _, rfl⟩ := h
    simp [Trace.score, assess_w ds p _ r' h4]

theorem assess_w_nth (ds : DistSem) : ∀ (ps : List Prog) (k : Nat) (i : In) (r : Res),
    runNth ds .assess ps k i = .ok r → r.w = r.tr.score
  | [], _, _, _, h => by simp [runNth] at h
  | p :: _, 0, i, r, h => by simp only [runNth] at h; exact assess_w ds p i r h
  | _ :: ps, k + 1, i, r, h => by simp only [runNth] at h; exact assess_w_nth ds ps k i r h

theorem assess_w_body (ds : DistSem) : ∀ (b : Body) (i : In) (olds env) (st st' : SState) (v : Val),
    runBody ds .assess b i olds env st = .ok (st', v) →
    st.w = Trace.scoreAL st.subs → st'.w = Trace.scoreAL st'.subs
  | .ret e, i, olds, env, st, st', v, h, hst => by
    simp only [runBody, bind_ok, pure_ok] at h
    obtain ⟨_, _, h2⟩ := h
    simp at h2; obtain ⟨rfl, _⟩ := h2; exact hst
  | .bind addr p aes rest, i, olds, env, st, st', v, h, hst => by
    simp only [runBody, bind_ok] at h
    obtain ⟨a, _, i', _, r, h3, h4⟩ := h
    refine assess_w_body ds rest i olds _ _ st' v h4 ?_
    simp [bindOut, scoreAL_append, Trace.scoreAL, hst, assess_w ds p i' r h3]
end

theorem leaf_sim_w {ds d i r} (h : leaf ds .sim d i = .ok r) : r.w = 0 := by
  unfold leaf at h; simp at h; subst h; rfl

mutual
theorem sim_w (ds : DistSem) : ∀ (p : Prog) (i : In) (r : Res), run ds .sim p i = .ok r → r.w = 0
  | .dist d, i, r, h => by simp only [run] at h; exact leaf_sim_w h
  | .static b, i, r, h => by
    simp only [run, staticRun, bind_ok, pure_ok] at h
    obtain ⟨env, _, olds, _, ⟨st, v⟩, h3, rfl⟩ := h
    exact sim_w_body ds b i olds env {} st v h3 rfl
  | .vmap p axes, i, r, h => by
    simp only [run, vmapRun, bind_ok, pure_ok] at h
    obtain ⟨as, _, n, _, _, _, rs, h3, rfl⟩ := h
    have hall : ∀ r ∈ rs, r.w = 0 :=
      vmapLoop_forall (P := fun r => r.w = 0) (fun k r hk => by
        simp only [bind_ok] at hk
        obtain ⟨i', _, h'⟩ := hk
        exact sim_w ds p i' r h') h3
    simp [vecRes, sumW_eq_zero hall]
  | .scan p len, i, r, h => by
    simp only [run, scanRun, bind_ok, pure_ok] at h
    obtain ⟨⟨carry, xs⟩, _, _, _, ⟨rs, fin⟩, h3, ys, _, rfl⟩ := h
    have hall : ∀ r ∈ rs, r.w = 0 :=
      scanLoop_forall (P := fun r => r.w = 0) (fun k key c x r hk => by
        simp only [bind_ok] at hk
        obtain ⟨i', _, h'⟩ := hk
        exact sim_w ds p i' r h') h3
    simp [vecRes, sumW_eq_zero hall]
  | .switch ps, i, r, h => by
    simp only [run, switchRun, bind_ok, pure_ok] at h
    obtain ⟨⟨idx, ba⟩, _, r', h2, rfl⟩ := h
    exact sim_w_nth ds ps idx _ r' h2
  | .mask p, i, r, h => by
    simp only [run, maskRun, bind_ok, pure_ok] at h
    obtain ⟨⟨check, iargs⟩, _, r', h2, rfl⟩ := h
    have := sim_w ds p _ r' h2
    cases check <;> simp [this]
  | .dimap pre p post, i, r, h => by
    simp only [run, dimapRun, bind_ok, pure_ok] at h
    obtain ⟨as, _, ia, _, o, _, r', h4, rv, _, rfl⟩ := h
    exact sim_w ds p _ r' h4

theorem sim_w_nth (ds : DistSem) : ∀ (ps : List Prog) (k : Nat) (i : In) (r : Res),
    runNth ds .sim ps k i = .ok r → r.w = 0
  | [], _, _, _, h => by simp [runNth] at h
  | p :: _, 0, i, r, h => by simp only [runNth] at h; exact sim_w ds p i r h
  | _ :: ps, k + 1, i, r, h => by simp only [runNth] at h; exact sim_w_nth ds ps k i r h

theorem sim_w_body (ds : DistSem) : ∀ (b : Body) (i : In) (olds env) (st st' : SState) (v : Val),
    runBody ds .sim b i olds env st = .ok (st', v) → st.w = 0 → st'.w = 0
  | .ret e, i, olds, env, st, st', v, h, hst => by
    simp only [runBody, bind_ok, pure_ok] at h
    obtain ⟨_, _, h2⟩ := h
    simp at h2; obtain ⟨rfl, _⟩ := h2; exact hst
  | .bind addr p aes rest, i, olds, env, st, st', v, h, hst => by
    simp only [runBody, bind_ok] at h
    obtain ⟨a, _, i', _, r, h3, h4⟩ := h
    refine sim_w_body ds rest i olds _ _ st' v h4 ?_
    simp [bindOut, hst, sim_w ds p i' r h3]
end

end GenjaxVerif.GFI
