import GenjaxVerif.Model.Leapfrog
import Mathlib.Tactic.Ring
import Mathlib.Tactic.LinearCombination
/-!
  Helper lemmas for C28 (model H).  Three groups:
  * structural facts about how the scan threads its carry (any scalar type, no algebra);
  * list-vector algebra over a commutative ring (needed for reversibility and `alpha`);
  * `gather` / `scatter` (selected vs. unselected coordinates) and the link between the
    trace-threading kernel `kernelTrace` and the abstract kernels on `(q, grad, p)`.
-/
namespace GenjaxVerif.Leapfrog

section Structural
variable {R : Type} [Add R] [Mul R]

@[simp] theorem iterate_zero {α : Type} (f : α → α) (c : α) : iterate f 0 c = c := rfl
@[simp] theorem iterate_succ {α : Type} (f : α → α) (n : Nat) (c : α) :
    iterate f (n + 1) c = iterate f n (f c) := rfl

theorem iterate_congr {α : Type} {f h : α → α} (e : ∀ a, f a = h a) (n : Nat) (c : α) :
    iterate f n c = iterate h n c := by
  induction n generalizing c with
  | zero => rfl
  | succ n ih => simp [e, ih]

omit [Mul R] in
@[simp] theorem length_vadd (a b : List R) : (vadd a b).length = min a.length b.length := by
  simp [vadd]
omit [Add R] in
@[simp] theorem length_smul (c : R) (a : List R) : (smul c a).length = a.length := by simp [smul]

/-- Invariant form of "repaired kernel = leapfrog": from any carry whose stored gradient is
    the gradient of its position. -/
theorem repaired_invariant (half eps : R) (g : List R → List R) (L : Nat) (c : Carry R)
    (hc : c.grad = g c.q) :
    let r := iterate (kernelRepaired half eps g) L c
    (r.q, r.p) = iterate (leapfrogSpec half eps g) L (c.q, c.p) ∧ r.grad = g r.q := by
  induction L generalizing c with
  | zero => exact ⟨rfl, hc⟩
  | succ n ih =>
    have h1 : (kernelRepaired half eps g c).grad = g (kernelRepaired half eps g c).q := rfl
    have h2 : ((kernelRepaired half eps g c).q, (kernelRepaired half eps g c).p)
        = leapfrogSpec half eps g (c.q, c.p) := by
      simp [kernelRepaired, leapfrogSpec, hc]
    have := ih (kernelRepaired half eps g c) h1
    simp only [iterate_succ]
    rw [← h2]
    exact this

/-- Invariant form of the characterisation: the as-written kernel never changes the
    gradient slot of the carry, and acts on `(q, p)` as `staleStep` with that fixed vector. -/
theorem asWritten_invariant (half eps : R) (g : List R → List R) (L : Nat) (c : Carry R) :
    let r := iterate (kernelAsWritten half eps g) L c
    r.grad = c.grad ∧ (r.q, r.p) = iterate (staleStep half eps g c.grad) L (c.q, c.p) := by
  induction L generalizing c with
  | zero => exact ⟨rfl, rfl⟩
  | succ n ih =>
    have h1 : (kernelAsWritten half eps g c).grad = c.grad := rfl
    have h2 : ((kernelAsWritten half eps g c).q, (kernelAsWritten half eps g c).p)
        = staleStep half eps g c.grad (c.q, c.p) := rfl
    have := ih (kernelAsWritten half eps g c)
    simp only [iterate_succ]
    rw [h1, h2] at this
    exact this

end Structural

section Algebra
variable {R : Type} [CommRing R]

@[simp] theorem length_vneg (a : List R) : (vneg a).length = a.length := by simp [vneg]

/-- `-(a + b) + b = -a` on vectors of equal length. -/
theorem vadd_vneg_vadd_cancel (a b : List R) (h : b.length = a.length) :
    vadd (vneg (vadd a b)) b = vneg a := by
  induction a generalizing b with
  | nil => simp [vadd, vneg]
  | cons x xs ih =>
    cases b with
    | nil => simp at h
    | cons y ys =>
      have h' : ys.length = xs.length := by simpa using h
      have := ih ys h'
      simp only [vadd, vneg, List.zipWith_cons_cons, List.map_cons] at this ⊢
      rw [this]
      congr 1
      ring

/-- `(a + e•b) + e•(-b) = a` when `b` is at least as long as `a`. -/
theorem vadd_smul_vneg_cancel (e : R) (a b : List R) (h : a.length = b.length) :
    vadd (vadd a (smul e b)) (smul e (vneg b)) = a := by
  induction a generalizing b with
  | nil => simp [vadd]
  | cons x xs ih =>
    cases b with
    | nil => simp at h
    | cons y ys =>
      have h' : xs.length = ys.length := by simpa using h
      have := ih ys h'
      simp only [vadd, vneg, smul, List.zipWith_cons_cons, List.map_cons] at this ⊢
      rw [this]
      congr 1
      ring

/-- The momenta terms of `alpha`: the log-normalisers cancel (equal numbers of coordinates)
    and the sign flip `mul = -1` is invisible. -/
theorem assessMomenta_diff (half lognorm : R) (a b : List R) (h : a.length = b.length) :
    assessMomenta half lognorm (-1) a - assessMomenta half lognorm 1 b
      = half * sqnorm b - half * sqnorm a := by
  induction a generalizing b with
  | nil =>
    cases b with
    | nil => simp [assessMomenta, sqnorm, vsum]
    | cons y ys => simp at h
  | cons x xs ih =>
    cases b with
    | nil => simp at h
    | cons y ys =>
      have h' : xs.length = ys.length := by simpa using h
      have := ih ys h'
      simp only [assessMomenta, sqnorm, vsum, normalScore, List.map_cons] at this ⊢
      linear_combination this

/-- `assess_momenta(p, mul=-1) = assess_momenta(p, mul=1)`: the standard normal is symmetric. -/
theorem assessMomenta_flip (half lognorm : R) (p : List R) :
    assessMomenta half lognorm (-1) p = assessMomenta half lognorm 1 p := by
  induction p with
  | nil => rfl
  | cons x xs ih =>
    simp only [assessMomenta, vsum, normalScore, List.map_cons] at ih ⊢
    rw [ih]
    ring

end Algebra

section Coordinates
variable {R : Type}

@[simp] theorem length_scatter (m : List Bool) (x q : List R) : (scatter m x q).length = x.length := by
  induction m generalizing x q with
  | nil => simp [scatter]
  | cons b m ih =>
    cases x with
    | nil => simp [scatter]
    | cons x xs =>
      cases b with
      | false => simp [scatter, ih]
      | true => cases q <;> simp [scatter, ih]

/-- The length of `gather m x` depends only on the lengths of `m` and `x`. -/
theorem length_gather_congr (m : List Bool) (x y : List R) (h : x.length = y.length) :
    (gather m x).length = (gather m y).length := by
  induction m generalizing x y with
  | nil => simp [gather]
  | cons b m ih =>
    cases x with
    | nil =>
      cases y with
      | nil => simp [gather]
      | cons y ys => simp at h
    | cons x xs =>
      cases y with
      | nil => simp at h
      | cons y ys =>
        have h' : xs.length = ys.length := by simpa using h
        cases b <;> simp [gather, ih xs ys h']

/-- Writing back what was read changes nothing. -/
theorem scatter_gather (m : List Bool) (x : List R) : scatter m x (gather m x) = x := by
  induction m generalizing x with
  | nil => simp [scatter]
  | cons b m ih =>
    cases x with
    | nil => simp [scatter]
    | cons x xs => cases b <;> simp [scatter, gather, ih]

/-- Reading back what was written returns it (right number of values). -/
theorem gather_scatter (m : List Bool) (x q : List R) (h : q.length = (gather m x).length) :
    gather m (scatter m x q) = q := by
  induction m generalizing x q with
  | nil => cases q <;> simp_all [gather]
  | cons b m ih =>
    cases x with
    | nil => cases q <;> simp_all [gather, scatter]
    | cons x xs =>
      cases b with
      | false => simpa [gather, scatter] using ih xs q (by simpa [gather] using h)
      | true =>
        cases q with
        | nil => simp [gather] at h
        | cons v q => simpa [gather, scatter] using ih xs q (by simpa [gather] using h)

/-- A second write of the right length overrides the first. -/
theorem scatter_scatter (m : List Bool) (x q q' : List R) (h : q'.length = (gather m x).length) :
    scatter m (scatter m x q) q' = scatter m x q' := by
  induction m generalizing x q q' with
  | nil => simp [scatter]
  | cons b m ih =>
    cases x with
    | nil => simp [scatter]
    | cons x xs =>
      cases b with
      | false => simpa [scatter] using ih xs q q' (by simpa [gather] using h)
      | true =>
        cases q' with
        | nil => simp [gather] at h
        | cons v' q' =>
          have h' : q'.length = (gather m xs).length := by simpa [gather] using h
          cases q with
          | nil => simpa [scatter] using ih xs [] q' h'
          | cons v q => simpa [scatter] using ih xs q q' h'

/-- Coordinates outside the mask are never touched by a write (any `q`, any lengths). -/
theorem gather_not_scatter (m : List Bool) (x q : List R) :
    gather (m.map (!·)) (scatter m x q) = gather (m.map (!·)) x := by
  induction m generalizing x q with
  | nil => simp [scatter]
  | cons b m ih =>
    cases x with
    | nil => simp [scatter]
    | cons x xs =>
      cases b with
      | false => simp [scatter, gather, ih]
      | true => cases q <;> simp [scatter, gather, ih]

end Coordinates

section Link
variable {R : Type} [Add R] [Mul R]

/-- The abstract kernel selected by the `fresh` flag of `kernelTrace`. -/
def kern (fresh : Bool) (half eps : R) (g : List R → List R) : Carry R → Carry R :=
  if fresh then kernelRepaired half eps g else kernelAsWritten half eps g

/-- All three vectors of the carry have `n` coordinates. -/
def Carry.WF (n : Nat) (c : Carry R) : Prop := c.q.length = n ∧ c.grad.length = n ∧ c.p.length = n

/-- Embedding of an abstract carry into a trace-level carry over the initial choices `x0`. -/
def embed (mask : List Bool) (x0 : List R) (c : Carry R) : TCarry R :=
  { x := scatter mask x0 c.q, q := c.q, grad := c.grad, p := c.p }

theorem kernelTrace_step (fresh : Bool) (half eps : R) (t : Target R) (mask : List Bool) (x0 : List R)
    (hgrad : ∀ x, (t.grad x).length = x.length) (c : Carry R)
    (hc : c.WF (gather mask x0).length) :
    kernelTrace fresh half eps t mask (embed mask x0 c)
        = embed mask x0 (kern fresh half eps (selOracle t mask x0) c)
      ∧ (kern fresh half eps (selOracle t mask x0) c).WF (gather mask x0).length := by
  obtain ⟨hq, hg, hp⟩ := hc
  have hq1 : (vadd c.q (smul eps (vadd c.p (smul (eps * half) c.grad)))).length
      = (gather mask x0).length := by simp [hq, hg, hp]
  have hsel : ∀ q, (selOracle t mask x0 q).length = (gather mask x0).length := by
    intro q
    exact length_gather_congr mask _ _ (by simp [hgrad])
  constructor
  · cases fresh <;>
      simp [kernelTrace, embed, kern, kernelRepaired, kernelAsWritten, selectionGradient, selOracle,
        scatter_scatter _ _ _ _ hq1, gather_scatter _ _ _ hq1]
  · cases fresh
    · refine ⟨?_, ?_, ?_⟩ <;> simp [kern, kernelAsWritten, hq, hg, hp, hsel]
    · refine ⟨?_, ?_, ?_⟩ <;> simp [kern, kernelRepaired, hq, hg, hp, hsel]

/-- The trace-threading scan is the abstract scan, embedded: the trace component is always
    "initial choices with the current `q` written into the selected coordinates". -/
theorem kernelTrace_iterate (fresh : Bool) (half eps : R) (t : Target R) (mask : List Bool) (x0 : List R)
    (hgrad : ∀ x, (t.grad x).length = x.length) (L : Nat) (c : Carry R)
    (hc : c.WF (gather mask x0).length) :
    iterate (kernelTrace fresh half eps t mask) L (embed mask x0 c)
      = embed mask x0 (iterate (kern fresh half eps (selOracle t mask x0)) L c) := by
  induction L generalizing c with
  | zero => rfl
  | succ n ih =>
    obtain ⟨h1, h2⟩ := kernelTrace_step fresh half eps t mask x0 hgrad c hc
    simp only [iterate_succ, h1]
    exact ih _ h2

theorem kern_iterate_wf (fresh : Bool) (half eps : R) (t : Target R) (mask : List Bool) (x0 : List R)
    (hgrad : ∀ x, (t.grad x).length = x.length) (L : Nat) (c : Carry R)
    (hc : c.WF (gather mask x0).length) :
    (iterate (kern fresh half eps (selOracle t mask x0)) L c).WF (gather mask x0).length := by
  induction L generalizing c with
  | zero => exact hc
  | succ n ih => exact ih _ (kernelTrace_step fresh half eps t mask x0 hgrad c hc).2

end Link

end GenjaxVerif.Leapfrog
