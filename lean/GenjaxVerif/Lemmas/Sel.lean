import GenjaxVerif.Model.Sel
/-! Helper lemmas for model A (selections).  Property theorems live in `Props/C18.lean`. -/
namespace GenjaxVerif.Sel

@[simp] theorem mkAnd_all_left (b : Sel) : mkAnd all b = b := by cases b <;> rfl
@[simp] theorem mkAnd_all_right (a : Sel) : mkAnd a all = a := by cases a <;> rfl
@[simp] theorem mkAnd_none_left (b : Sel) : mkAnd none b = none := by cases b <;> rfl
@[simp] theorem mkAnd_none_right (a : Sel) : mkAnd a none = none := by cases a <;> rfl
@[simp] theorem mkAnd_self (a : Sel) : mkAnd a a = a := by cases a <;> simp [mkAnd]

@[simp] theorem mkOr_all_left (b : Sel) : mkOr all b = all := by cases b <;> rfl
@[simp] theorem mkOr_all_right (a : Sel) : mkOr a all = all := by cases a <;> rfl
@[simp] theorem mkOr_none_left (b : Sel) : mkOr none b = b := by cases b <;> rfl
@[simp] theorem mkOr_none_right (a : Sel) : mkOr a none = a := by cases a <;> rfl
@[simp] theorem mkOr_self (a : Sel) : mkOr a a = a := by cases a <;> simp [mkOr]

/-- Outside the simplifying arms `mkAnd` is the raw constructor. -/
theorem mkAnd_generic (a b : Sel) (ha : a ≠ all) (ha' : a ≠ none) (hb : b ≠ all) (hb' : b ≠ none)
    (hab : a ≠ b) : mkAnd a b = and a b := by
  cases a <;> cases b <;> simp_all [mkAnd]

theorem mkOr_generic (a b : Sel) (ha : a ≠ all) (ha' : a ≠ none) (hb : b ≠ all) (hb' : b ≠ none)
    (hab : a ≠ b) : mkOr a b = or a b := by
  cases a <;> cases b <;> simp_all [mkOr]

theorem check_mkCompl (s : Sel) : check (mkCompl s) = !check s := by
  cases s <;> simp [mkCompl, check]

theorem check_mkAnd (a b : Sel) : check (mkAnd a b) = (check a && check b) := by
  by_cases h1 : a = all; · subst h1; simp [check]
  by_cases h2 : a = none; · subst h2; simp [check]
  by_cases h3 : b = all; · subst h3; simp [check]
  by_cases h4 : b = none; · subst h4; simp [check]
  by_cases h5 : a = b; · subst h5; simp
  rw [mkAnd_generic a b h1 h2 h3 h4 h5]; rfl

theorem check_mkOr (a b : Sel) : check (mkOr a b) = (check a || check b) := by
  by_cases h1 : a = all; · subst h1; simp [check]
  by_cases h2 : a = none; · subst h2; simp [check]
  by_cases h3 : b = all; · subst h3; simp [check]
  by_cases h4 : b = none; · subst h4; simp [check]
  by_cases h5 : a = b; · subst h5; simp
  rw [mkOr_generic a b h1 h2 h3 h4 h5]; rfl

theorem den_mkCompl (s : Sel) (p : List String) : den (mkCompl s) p = !den s p := by
  cases s <;> simp [mkCompl, den]

theorem den_mkAnd (a b : Sel) (p : List String) : den (mkAnd a b) p = (den a p && den b p) := by
  by_cases h1 : a = all; · subst h1; simp [den]
  by_cases h2 : a = none; · subst h2; simp [den]
  by_cases h3 : b = all; · subst h3; simp [den]
  by_cases h4 : b = none; · subst h4; simp [den]
  by_cases h5 : a = b; · subst h5; simp
  rw [mkAnd_generic a b h1 h2 h3 h4 h5]; rfl

theorem den_mkOr (a b : Sel) (p : List String) : den (mkOr a b) p = (den a p || den b p) := by
  by_cases h1 : a = all; · subst h1; simp [den]
  by_cases h2 : a = none; · subst h2; simp [den]
  by_cases h3 : b = all; · subst h3; simp [den]
  by_cases h4 : b = none; · subst h4; simp [den]
  by_cases h5 : a = b; · subst h5; simp
  rw [mkOr_generic a b h1 h2 h3 h4 h5]; rfl

theorem den_mkStat (s : Sel) (a : XAddr) (p : List String) : den (mkStat s a) p = den (stat s a) p := by
  cases s <;> first | rfl | (cases p <;> simp [mkStat, den])

/-- One step of `get_subselection` is one step of the address in the reference meaning. -/
theorem den_sub (s : Sel) (x : String) (q : List String) : den (sub s x) q = den s (x :: q) := by
  induction s generalizing q with
  | all => rfl
  | none => rfl
  | leaf => rfl
  | compl s ih => simp [sub, den_mkCompl, den, ih]
  | stat s a ih =>
    cases a with
    | none => simp [sub, den]
    | some y =>
      by_cases h : x = y
      · subst h; simp [sub, den]
      · simp [sub, den, h]
  | and a b iha ihb => simp [sub, den_mkAnd, den, iha, ihb]
  | or a b iha ihb => simp [sub, den_mkOr, den, iha, ihb]

theorem check_eq_den (s : Sel) : check s = den s [] := by
  induction s with
  | all => rfl
  | none => rfl
  | leaf => rfl
  | compl s ih => simp [check, den, ih]
  | stat s a _ => rfl
  | and a b iha ihb => simp [check, den, iha, ihb]
  | or a b iha ihb => simp [check, den, iha, ihb]

@[simp] theorem subs_all (p : List String) : subs all p = all := by
  induction p with
  | nil => rfl
  | cons x q ih => simpa [subs, sub] using ih

@[simp] theorem subs_none (p : List String) : subs none p = none := by
  induction p with
  | nil => rfl
  | cons x q ih => simpa [subs, sub] using ih

theorem subs_append (s : Sel) (p q : List String) : subs s (p ++ q) = subs (subs s p) q := by
  simp [subs, List.foldl_append]

theorem subs_cons (s : Sel) (x : String) (q : List String) : subs s (x :: q) = subs (sub s x) q := rfl

end GenjaxVerif.Sel
