import GenjaxVerif.Lemmas.CMap
import GenjaxVerif.Lemmas.GFIShape
/-! `assess` is insensitive to masking the sample's leaves, and replays every trace. -/
namespace GenjaxVerif.GFI
open GenjaxVerif CMap

/-- The same input with every leaf of the sample re-masked by `f` (`chm.mask(f)`). -/
def maskIn (f : Bool) (i : In) : In := { i with c := maskAll f i.c }

theorem leaf_assess_mask (ds : DistSem) (d : Nat) (f : Bool) (i : In) :
    leaf ds .assess d (maskIn f i) = leaf ds .assess d i := by
  unfold leaf
  simp only [maskIn, leaf_maskAll]
  cases h : i.c.leaf with
  | none => simp
  | some v => cases v <;> simp [CVal.mask]

theorem bindIn_assess_mask (f : Bool) (i : In) (olds st addr a) :
    bindIn .assess (maskIn f i) olds st addr a = (bindIn .assess i olds st addr a).map (maskIn f) := by
  unfold bindIn
  simp only [maskIn, subStatic_maskAll, isEmpty_maskAll, bindOld]
  split
  · rfl
  · split
    · rfl
    · rfl

theorem vmapElem_mask (f : Bool) (axes as) (i : In) (k : Nat) :
    vmapElem axes as (maskIn f i) k = (vmapElem axes as i k).map (maskIn f) := by
  unfold vmapElem
  simp only [maskIn, sub_maskAll]
  cases sliceArgs axes as k with
  | error e => rfl
  | ok ea =>
    cases nthOld i.old k with
    | error e => rfl
    | ok o => rfl

theorem scanElem_mask (f : Bool) (m) (i : In) (k key carry x) :
    scanElem m (maskIn f i) k key carry x = (scanElem m i k key carry x).map (maskIn f) := by
  unfold scanElem
  simp only [maskIn, sub_maskAll]
  cases nthOld i.old k with
  | error e => rfl
  | ok o => rfl

theorem bind_map_eq {α β} (x : Except Err α) (g : α → α) (k1 k2 : α → Except Err β)
    (h : ∀ a, k1 (g a) = k2 a) : (x.map g >>= k1) = (x >>= k2) := by
  cases x with
  | error e => rfl
  | ok a => simpa [Except.map, bind, Except.bind] using h a

mutual
theorem assess_mask (ds : DistSem) (f : Bool) : ∀ (p : Prog) (i : In),
    run ds .assess p (maskIn f i) = run ds .assess p i
  | .dist d, i => by simp only [run]; exact leaf_assess_mask ds d f i
  | .static b, i => by
    simp only [run, staticRun]
    have : ∀ olds env, runBody ds .assess b (maskIn f i) olds env {} =
        runBody ds .assess b i olds env {} := fun olds env => assess_mask_body ds f b i olds env {}
    simp only [this]; rfl
  | .vmap p axes, i => by
    simp only [run, vmapRun]
    have : ∀ as, (fun k => do run ds .assess p (← vmapElem axes as (maskIn f i) k)) =
        (fun k => do run ds .assess p (← vmapElem axes as i k)) := by
      intro as; funext k
      rw [vmapElem_mask]
      exact bind_map_eq _ _ _ _ (fun a => assess_mask ds f p a)
    simp only [this]; rfl
  | .scan p len, i => by
    simp only [run, scanRun]
    have : (fun k key carry x => do run ds .assess p (← scanElem .assess (maskIn f i) k key carry x)) =
        (fun k key carry x => do run ds .assess p (← scanElem .assess i k key carry x)) := by
      funext k key carry x
      rw [scanElem_mask]
      exact bind_map_eq _ _ _ _ (fun a => assess_mask ds f p a)
    simp only [this]; rfl
  | .switch ps, i => by
    simp only [run, switchRun]
    have : ∀ idx ba, runNth ds .assess ps idx { (maskIn f i) with args := ba } =
        runNth ds .assess ps idx { i with args := ba } := by
      intro idx ba; exact assess_mask_nth ds f ps idx { i with args := ba }
    simp only [this]; rfl
  | .mask p, i => by
    simp only [run, maskRun]
    have : ∀ iargs, run ds .assess p { (maskIn f i) with args := .tup iargs } =
        run ds .assess p { i with args := .tup iargs } := by
      intro iargs; exact assess_mask ds f p { i with args := .tup iargs }
    simp only [this]; rfl
  | .dimap pre p post, i => by
    simp only [run, dimapRun]
    have : ∀ o ia, run ds .assess p { (maskIn f i) with old := o, args := .tup ia } =
        run ds .assess p { i with old := o, args := .tup ia } := by
      intro o ia; exact assess_mask ds f p { i with old := o, args := .tup ia }
    simp only [this]; rfl

theorem assess_mask_nth (ds : DistSem) (f : Bool) : ∀ (ps : List Prog) (k : Nat) (i : In),
    runNth ds .assess ps k (maskIn f i) = runNth ds .assess ps k i
  | [], _, _ => by simp [runNth]
  | p :: _, 0, i => by simp only [runNth]; exact assess_mask ds f p i
  | _ :: ps, k + 1, i => by simp only [runNth]; exact assess_mask_nth ds f ps k i

theorem assess_mask_body (ds : DistSem) (f : Bool) : ∀ (b : Body) (i : In) (olds env) (st : SState),
    runBody ds .assess b (maskIn f i) olds env st = runBody ds .assess b i olds env st
  | .ret e, i, olds, env, st => by simp only [runBody]
  | .bind addr p aes rest, i, olds, env, st => by
    simp only [runBody]
    cases Expr.evalL env aes with
    | error e => rfl
    | ok a =>
      simp only [bind, Except.bind]
      rw [bindIn_assess_mask]
      cases bindIn .assess i olds st addr a with
      | error e => rfl
      | ok i' =>
        simp only [Except.map]
        rw [assess_mask ds f p i']
        cases run ds .assess p i' with
        | error e => rfl
        | ok r => exact assess_mask_body ds f rest i olds _ _
end

end GenjaxVerif.GFI

namespace GenjaxVerif.GFI
open GenjaxVerif CMap

/-! ### Replay: `assess` on a trace's own choices rebuilds that trace -/

mutual
/-- `Good t`: at every static-language node of `t` the recorded addresses are pairwise
    prefix-free and every traced call made at least one random choice (so that
    `AssessHandler`'s `static_is_empty` test does not raise `MissingAddress`). -/
def Good : Trace → Prop
  | .dist _ _ _ _ => True
  | .static _ _ subs => (subs.map (·.1)).Pairwise Incomp ∧ GoodAL subs
  | .vec _ _ elems => GoodL elems
  | .switch _ _ sub => Good sub
  | .mask _ inner => Good inner
  | .dimap _ _ inner => Good inner
def GoodL : List Trace → Prop
  | [] => True
  | t :: ts => Good t ∧ GoodL ts
def GoodAL : List (List String × Trace) → Prop
  | [] => True
  | (_, t) :: ts => t.choices ≠ [] ∧ Good t ∧ GoodAL ts
end

theorem goodL_get : ∀ {ts : List Trace}, GoodL ts → ∀ j (h : j < ts.length), Good ts[j]
  | [], _, _, h => by simp at h
  | _ :: _, hg, 0, _ => hg.1
  | _ :: ts, hg, j + 1, h => by simpa using goodL_get hg.2 j (by simpa using h)

theorem goodAL_mem : ∀ {subs : List (List String × Trace)}, GoodAL subs → ∀ a t, (a, t) ∈ subs →
    t.choices ≠ [] ∧ Good t
  | [], _, _, _, h => by simp at h
  | (b, u) :: rest, hg, a, t, h => by
    simp only [List.mem_cons, Prod.mk.injEq] at h
    rcases h with ⟨rfl, rfl⟩ | h
    · exact ⟨hg.1, hg.2.1⟩
    · exact goodAL_mem hg.2.2 a t h

/-- The result `assess` returns when it replays a trace. -/
def replayed (t : Trace) : Res := ⟨t, t.score, [], true⟩

theorem leaf_form {ds m d i r} (h : leaf ds m d i = .ok r) : ∃ v, r.tr = .dist d i.args v (ds.lp d v i.args) := by
  unfold leaf at h
  cases m <;> simp only at h
  · simp at h; subst h; exact ⟨_, rfl⟩
  · split at h <;> simp at h <;> subst h <;> exact ⟨_, rfl⟩
  · split at h
    · simp at h; subst h; exact ⟨_, rfl⟩
    · split at h <;> simp at h <;> subst h <;> exact ⟨_, rfl⟩
    · simp at h; subst h; exact ⟨_, rfl⟩
  · simp only [bind_ok] at h
    obtain ⟨t, _, h2⟩ := h
    split at h2
    · split at h2 <;> simp at h2 <;> subst h2 <;> exact ⟨_, rfl⟩
    · simp at h2
  · simp only [bind_ok] at h
    obtain ⟨t, _, h2⟩ := h
    split at h2
    · split at h2 <;> simp at h2 <;> subst h2 <;> exact ⟨_, rfl⟩
    · simp at h2

theorem vmapLoop_replay {f g : Nat → Except Err Res} {T : Res → Res} :
    ∀ {n k rs}, vmapLoop f k n = .ok rs →
      (∀ j (hj : j < rs.length), f (k + j) = .ok rs[j] → g (k + j) = .ok (T rs[j])) →
      vmapLoop g k n = .ok (rs.map T)
  | 0, _, rs, h, _ => by simp [vmapLoop] at h ⊢; subst h; rfl
  | n + 1, k, rs, h, hg => by
    simp only [vmapLoop, bind_ok, pure_ok] at h
    obtain ⟨r, h1, rs', h2, rfl⟩ := h
    have h0 := hg 0 (by simp) (by simpa using h1)
    simp only [Nat.add_zero, List.getElem_cons_zero] at h0
    have ih := vmapLoop_replay (g := g) (T := T) h2 (fun j hj hf => by
      have := hg (j + 1) (by simpa using hj) (by simpa [Nat.add_assoc, Nat.add_comm 1 j] using hf)
      simpa [Nat.add_assoc, Nat.add_comm 1 j] using this)
    simp [vmapLoop, h0, ih, bind, Except.bind, pure, Except.pure]

theorem scanLoop_replay {f g : Nat → KeyPath → Val → Val → Except Err Res} {T : Res → Res}
    (hT : ∀ r, (T r).tr = r.tr) :
    ∀ {xs k key key' carry rs fin}, scanLoop f k key carry xs = .ok (rs, fin) →
      (∀ j (hj : j < rs.length) key1 c x, f (k + j) key1 c x = .ok rs[j] →
        ∀ key2, g (k + j) key2 c x = .ok (T rs[j])) →
      scanLoop g k key' carry xs = .ok (rs.map T, fin)
  | [], _, _, _, _, rs, fin, h, _ => by simp [scanLoop] at h ⊢; obtain ⟨rfl, rfl⟩ := h; simp
  | x :: xs, k, key, key', carry, rs, fin, h, hg => by
    simp only [scanLoop, bind_ok] at h
    obtain ⟨r, h1, h2⟩ := h
    split at h2
    · rename_i carry' y hret
      simp only [bind_ok, pure_ok] at h2
      obtain ⟨⟨rs', fin'⟩, h3, h4⟩ := h2
      simp at h4
      obtain ⟨rfl, rfl⟩ := h4
      have h0 := hg 0 (by simp) _ _ _ (by simpa using h1) (key'.child k)
      simp only [Nat.add_zero, List.getElem_cons_zero] at h0
      have ih := scanLoop_replay (g := g) hT (key' := key'.child k) h3 (fun j hj key1 c x' hf key2 => by
        have := hg (j + 1) (by simpa using hj) key1 c x'
          (by simpa [Nat.add_assoc, Nat.add_comm 1 j] using hf) key2
        simpa [Nat.add_assoc, Nat.add_comm 1 j] using this)
      simp only [scanLoop, h0, bind, Except.bind, hT, hret, ih, List.map_cons, pure, Except.pure]
    · simp at h2

theorem sumW_replayed (ts : List Trace) : sumW (ts.map replayed) = Trace.scoreL ts := by
  induction ts with
  | nil => rfl
  | cons t ts ih => simp [sumW_cons, replayed, Trace.scoreL, ih] at *

theorem bwdFrom_replayed (ts : List Trace) (k : Nat) : bwdFrom k (ts.map replayed) = [] := by
  induction ts generalizing k with
  | nil => rfl
  | cons t ts ih => simp [bwdFrom, replayed, ih]

theorem bwdIdx_replayed (ts : List Trace) : bwdIdx (ts.map replayed) = [] := bwdFrom_replayed ts 0

theorem allBwdOk_replayed (ts : List Trace) : allBwdOk (ts.map replayed) = true := by
  simp [allBwdOk, replayed]

theorem map_tr_replayed (ts : List Trace) : (ts.map replayed).map (·.tr) = ts := by
  induction ts with
  | nil => rfl
  | cons t ts ih => simp only [List.map_cons, ih]; rfl

theorem map_ret_replayed (ts : List Trace) : (ts.map replayed).map (·.tr.ret) = ts.map (·.ret) := by
  induction ts with
  | nil => rfl
  | cons t ts ih => simp only [List.map_cons, ih]; rfl

theorem mapM_secondOfRet_replayed (rs : List Res) :
    (rs.map (fun r => replayed r.tr)).mapM secondOfRet = rs.mapM secondOfRet := by
  induction rs with
  | nil => rfl
  | cons r rs ih =>
    simp only [List.map_cons, List.mapM_cons, ih]
    rfl

theorem bindIn_ok_any {m i olds st addr a i'} (h : bindIn m i olds st addr a = .ok i') :
    lookupSub st.subs addr = none ∧ i'.args = .tup a := by
  unfold bindIn at h
  split at h
  · simp at h
  · rename_i hn
    have hn : lookupSub st.subs addr = none := by
      cases hl : lookupSub st.subs addr with
      | none => rfl
      | some t => simp [hl] at hn
    refine ⟨hn, ?_⟩
    split at h
    · simp at h
    · split at h
      · simp at h
      · simp at h; subst h; rfl

end GenjaxVerif.GFI

namespace GenjaxVerif.GFI
open GenjaxVerif CMap

theorem leaf_replay {ds m d i r} (h : leaf ds m d i = .ok r) (j : In)
    (hc : j.c = r.tr.choices) (ha : j.args = i.args) : leaf ds .assess d j = .ok (replayed r.tr) := by
  obtain ⟨v, hv⟩ := leaf_form h
  unfold leaf
  simp [hc, hv, Trace.choices, CMap.leaf, ha, replayed, Trace.score]

/-- Every mode of `switchRun` returns a `.switch` trace around a branch result with the
    branch's arguments. -/
theorem switchRun_form {m n i f r} (h : switchRun m n i f = .ok r) :
    ∃ idx ba m' i' r', switchArgs n i.args = .ok (idx, ba) ∧ f m' idx i' = .ok r' ∧ i'.args = ba ∧
      r.tr = .switch i.args idx r'.tr := by
  simp only [switchRun, bind_ok] at h
  obtain ⟨⟨idx, ba⟩, hsa, h2⟩ := h
  cases m <;> simp only at h2
  case upd =>
    split at h2
    · split at h2
      · simp only [bind_ok, pure_ok] at h2
        obtain ⟨fr, _, r', h4, rfl⟩ := h2
        exact ⟨idx, ba, _, _, r', hsa, h4, rfl, rfl⟩
      · split at h2
        · simp at h2
        · simp only [bind_ok, pure_ok] at h2
          obtain ⟨r', h4, rfl⟩ := h2
          exact ⟨idx, ba, _, _, r', hsa, h4, rfl, rfl⟩
    · simp at h2
  case regen => simp at h2
  all_goals
    simp only [bind_ok, pure_ok] at h2
    obtain ⟨r', h4, rfl⟩ := h2
    exact ⟨idx, ba, _, _, r', hsa, h4, rfl, rfl⟩

theorem maskRun_form {m i f r} (h : maskRun m i f = .ok r) :
    ∃ check iargs m' i' r', maskArgs i.args = .ok (check, iargs) ∧ f m' i' = .ok r' ∧ i'.args = .tup iargs ∧
      r.tr = .mask check r'.tr := by
  simp only [maskRun, bind_ok] at h
  obtain ⟨⟨check, iargs⟩, hma, h2⟩ := h
  cases m <;> simp only at h2
  case upd =>
    split at h2
    · simp only [bind_ok, pure_ok] at h2
      obtain ⟨r', h4, rfl⟩ := h2
      exact ⟨check, iargs, _, _, r', hma, h4, rfl, rfl⟩
    · simp at h2
  case regen => simp at h2
  all_goals
    simp only [bind_ok, pure_ok] at h2
    obtain ⟨r', h4, rfl⟩ := h2
    exact ⟨check, iargs, _, _, r', hma, h4, rfl, rfl⟩

mutual
theorem replay (ds : DistSem) : ∀ (m : Mode) (p : Prog) (i : In) (r : Res), run ds m p i = .ok r → Good r.tr →
    ∀ j : In, j.c = r.tr.choices → j.args = i.args → j.old = none →
    run ds .assess p j = .ok (replayed r.tr)
  | m, .dist d, i, r, h, _, j, hc, ha, _ => by
    simp only [run] at h ⊢; exact leaf_replay h j hc ha
  | m, .static b, i, r, h, hg, j, hc, ha, ho => by
    simp only [run, staticRun, bind_ok, pure_ok] at h
    obtain ⟨env, henv, olds, _, ⟨st, v⟩, h3, rfl⟩ := h
    simp only [Good] at hg
    simp only [Trace.choices] at hc
    have hb := replay_body ds m b i olds env {} st v h3 hg.1 hg.2 j hc [] {} rfl
    obtain ⟨sta, hb1, hb2, hb3, hb4, hb5⟩ := hb
    simp only [run, staticRun, ha, henv, ho, staticOlds, bind, Except.bind, hb1, pure, Except.pure, replayed,
      Trace.score, hb2, hb3, hb4, hb5]
    simp [Trace.scoreAL]
  | m, .vmap p axes, i, r, h, hg, j, hc, ha, ho => by
    simp only [run, vmapRun, bind_ok, pure_ok] at h
    obtain ⟨as, has, n, hn, _, _, rs, h3, rfl⟩ := h
    simp only [vecRes, Good] at hg
    simp only [vecRes, Trace.choices] at hc
    have hl := vmapLoop_length h3
    have hloop := vmapLoop_replay (g := fun k => do run ds .assess p (← vmapElem axes as j k))
      (T := fun r => replayed r.tr) h3 (fun q hq hf => by
        simp only [bind_ok, Nat.zero_add] at hf ⊢
        obtain ⟨i', hi', hr⟩ := hf
        simp only [vmapElem, bind_ok, pure_ok] at hi'
        obtain ⟨ea, hea, o, _, rfl⟩ := hi'
        refine ⟨{ j with c := j.c.sub (.i q), old := none, key := j.key.child q, args := .tup ea }, ?_, ?_⟩
        · simp [vmapElem, hea, ho, nthOld, bind, Except.bind, pure, Except.pure]
        · refine replay ds m p _ rs[q] hr (by have := goodL_get hg q (by simpa using hq); simpa [List.getElem_map] using this) _ ?_ rfl rfl
          have := sub_choicesL (rs.map (·.tr)) 0 q (by simpa using hq)
          simpa [hc] using this)
    have hm : List.map (fun r => replayed r.tr) rs = (rs.map (·.tr)).map replayed := by simp
    simp only [run, vmapRun, bind_ok, pure_ok]
    refine ⟨as, by simpa [vmapArgs, ha] using (vmapArgs_ok has).1, n, hn, (), by simp [checkOldLen, ho], _, hloop, ?_⟩
    rw [hm]
    simp only [vecRes, sumW_replayed, bwdIdx_replayed, allBwdOk_replayed, map_tr_replayed, map_ret_replayed]
    simp [replayed, Trace.score, ha]
  | m, .scan p len, i, r, h, hg, j, hc, ha, ho => by
    simp only [run, scanRun, bind_ok, pure_ok] at h
    obtain ⟨⟨carry, xs⟩, hsa, _, _, ⟨rs, fin⟩, h3, ys, hys, rfl⟩ := h
    simp only [vecRes, Good] at hg
    simp only [vecRes, Trace.choices] at hc
    dsimp only at h3
    have hloop := scanLoop_replay (g := fun k key carry x => do run ds .assess p (← scanElem .assess j k key carry x))
      (T := fun r => replayed r.tr) (fun _ => rfl) (key' := j.key) h3 (fun q hq key1 c x hf key2 => by
        simp only [bind_ok, Nat.zero_add] at hf ⊢
        obtain ⟨i', hi', hr⟩ := hf
        simp only [scanElem, bind_ok, pure_ok] at hi'
        obtain ⟨o, _, rfl⟩ := hi'
        refine ⟨{ j with c := j.c.sub (.i q), old := none, key := key2, args := .tup [c, x],
                         changed := j.changed || Mode.assess == Mode.upd }, ?_, ?_⟩
        · simp [scanElem, ho, nthOld, bind, Except.bind, pure, Except.pure]
        · refine replay ds m p _ rs[q] hr (by have := goodL_get hg q (by simpa using hq); simpa [List.getElem_map] using this) _ ?_ rfl rfl
          have := sub_choicesL (rs.map (·.tr)) 0 q (by simpa using hq)
          simpa [hc] using this)
    have hys' : (rs.map (fun r => replayed r.tr)).mapM secondOfRet = .ok ys := by
      rw [← hys]; exact mapM_secondOfRet_replayed rs
    have hm : List.map (fun r => replayed r.tr) rs = (rs.map (·.tr)).map replayed := by simp
    simp only [run, scanRun, bind_ok, pure_ok]
    refine ⟨(carry, xs), by rw [ha]; exact hsa, (), by simp [checkOldLen, ho], (_, fin), hloop, ys, hys', ?_⟩
    rw [hm]
    simp only [vecRes, sumW_replayed, bwdIdx_replayed, allBwdOk_replayed, map_tr_replayed, map_ret_replayed]
    simp [replayed, Trace.score, ha]
  | m, .switch ps, i, r, h, hg, j, hc, ha, ho => by
    simp only [run] at h
    obtain ⟨idx, ba, m', i', r', hsa, hf, hia, htr⟩ := switchRun_form h
    rw [htr] at hg hc ⊢
    simp only [Good] at hg
    simp only [Trace.choices] at hc
    have := replay_nth ds m' ps idx i' r' hf hg { j with args := ba } hc (by simp [hia]) ho
    simp only [run, switchRun, ha, hsa, bind, Except.bind, this, pure, Except.pure, replayed, Trace.score]
  | m, .mask p, i, r, h, hg, j, hc, ha, ho => by
    simp only [run] at h
    obtain ⟨check, iargs, m', i', r', hma, hf, hia, htr⟩ := maskRun_form h
    rw [htr] at hg hc ⊢
    simp only [Good] at hg
    simp only [Trace.choices] at hc
    have h1 := replay ds m' p i' r' hf hg { j with c := r'.tr.choices, args := .tup iargs } rfl (by simp [hia]) ho
    have h2 := assess_mask ds check p { j with c := r'.tr.choices, args := .tup iargs }
    have h3 : maskIn check { j with c := r'.tr.choices, args := .tup iargs } = { j with args := .tup iargs } := by
      simp [maskIn, hc]
    rw [h3, h1] at h2
    simp only [run, maskRun, ha, hma, bind, Except.bind, h2, pure, Except.pure, replayed, Trace.score]
    try (cases check <;> simp)
  | m, .dimap pre p post, i, r, h, hg, j, hc, ha, ho => by
    simp only [run, dimapRun, bind_ok, pure_ok] at h
    obtain ⟨as, has, ia, hia, o, _, r', h4, rv, hrv, rfl⟩ := h
    simp only [Good] at hg
    simp only [Trace.choices] at hc
    have h1 := replay ds m p _ r' h4 hg { j with old := none, args := .tup ia } hc rfl rfl
    simp only [run, dimapRun, ha, has, hia, ho, dimapOld, bind, Except.bind, h1, pure, Except.pure, replayed,
      hrv, Trace.score]

theorem replay_nth (ds : DistSem) : ∀ (m : Mode) (ps : List Prog) (k : Nat) (i : In) (r : Res),
    runNth ds m ps k i = .ok r → Good r.tr →
    ∀ j : In, j.c = r.tr.choices → j.args = i.args → j.old = none →
    runNth ds .assess ps k j = .ok (replayed r.tr)
  | _, [], _, _, _, h, _, _, _, _, _ => by simp [runNth] at h
  | m, p :: _, 0, i, r, h, hg, j, hc, ha, ho => by
    simp only [runNth] at h ⊢; exact replay ds m p i r h hg j hc ha ho
  | m, _ :: ps, k + 1, i, r, h, hg, j, hc, ha, ho => by
    simp only [runNth] at h ⊢; exact replay_nth ds m ps k i r h hg j hc ha ho

/-- Replaying a static body: the assess handler, fed the final choices, records the same
    subtraces and accumulates their scores. -/
theorem replay_body (ds : DistSem) : ∀ (m : Mode) (b : Body) (i : In) (olds env) (st st' : SState) (v : Val),
    runBody ds m b i olds env st = .ok (st', v) →
    (st'.subs.map (·.1)).Pairwise Incomp → GoodAL st'.subs →
    ∀ j : In, j.c = Trace.choicesAL st'.subs → ∀ olds' (sta : SState), sta.subs = st.subs →
    ∃ sta', runBody ds .assess b j olds' env sta = .ok (sta', v) ∧ sta'.subs = st'.subs ∧
      sta'.w = sta.w + (Trace.scoreAL st'.subs - Trace.scoreAL st.subs) ∧ sta'.bwd = sta.bwd ∧
      sta'.bwdOk = sta.bwdOk
  | m, .ret e, i, olds, env, st, st', v, h, _, _, j, _, olds', sta, hs => by
    simp only [runBody, bind_ok, pure_ok] at h
    obtain ⟨v', hv, h2⟩ := h
    simp at h2; obtain ⟨rfl, rfl⟩ := h2
    exact ⟨sta, by simp [runBody, hv, bind, Except.bind, pure, Except.pure], hs, by simp, rfl, rfl⟩
  | m, .bind addr p aes rest, i, olds, env, st, st', v, h, hpw, hgood, j, hc, olds', sta, hs => by
    simp only [runBody, bind_ok] at h
    obtain ⟨a, ha, i', hi', r, h3, h4⟩ := h
    obtain ⟨hnone, hargs⟩ := bindIn_ok_any hi'
    obtain ⟨suf, hsuf, _⟩ := run_shape_body ds m rest i olds _ _ st' v h4
    have hmem : (addr, r.tr) ∈ st'.subs := by rw [hsuf]; simp [bindOut]
    obtain ⟨hne, hgr⟩ := goodAL_mem hgood addr r.tr hmem
    have hsub : CMap.subStatic j.c addr = r.tr.choices := by
      rw [hc]; exact subStatic_choicesAL st'.subs hpw addr r.tr hmem
    have hbi : bindIn .assess j olds' sta addr a =
        .ok { j with c := r.tr.choices, sel := j.sel.subs addr, old := none,
                      key := j.key.child sta.counter, args := .tup a } := by
      have : r.tr.choices.isEmpty = false := by
        cases hch : r.tr.choices with
        | nil => exact absurd hch hne
        | cons _ _ => rfl
      simp [bindIn, hs, hnone, hsub, bindOld, this]
    have hr := replay ds m p i' r h3 hgr
      { j with c := r.tr.choices, sel := j.sel.subs addr, old := none,
               key := j.key.child sta.counter, args := .tup a } rfl (by simp [hargs]) rfl
    have ih := replay_body ds m rest i olds _ _ st' v h4 hpw hgood j hc olds'
      (bindOut sta addr (replayed r.tr)) (by simp [bindOut, hs, replayed])
    obtain ⟨sta', e1, e2, e3, e4, e5⟩ := ih
    refine ⟨sta', ?_, e2, ?_, ?_, ?_⟩
    · simp only [runBody, ha, hbi, bind, Except.bind, hr]
      simpa [replayed] using e1
    · rw [e3]; simp [bindOut, replayed, scoreAL_append, Trace.scoreAL]; omega
    · rw [e4]; simp [bindOut, replayed]
    · rw [e5]; simp [bindOut, replayed]
end

end GenjaxVerif.GFI
