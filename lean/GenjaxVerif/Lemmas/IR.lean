import GenjaxVerif.Model.IR
/-!
  Helper lemmas for model D: relational reasoning about `Except`, environments related
  pointwise, and the three simulation arguments (incremental ~ stateful, incremental ~
  incremental on agreeing inputs, stateful ~ reference).
-/
namespace GenjaxVerif.IR

/-! ## Specification vocabulary -/

/-- Pointwise relation on two lists of the same length. -/
inductive All₂ {α β : Type} (R : α → β → Prop) : List α → List β → Prop where
  | nil : All₂ R [] []
  | cons {a b as bs} : R a b → All₂ R as bs → All₂ R (a :: as) (b :: bs)

/-- Both computations fail with the same error, or both succeed with related results. -/
def ExRel {α β : Type} (R : α → β → Prop) : Except Err α → Except Err β → Prop
  | .ok a, .ok b => R a b
  | .error x, .error y => x = y
  | _, _ => False

/-- If both computations succeed, their results are related. -/
def OkRel {α β : Type} (R : α → β → Prop) (x : Except Err α) (y : Except Err β) : Prop :=
  ∀ a b, x = .ok a → y = .ok b → R a b

def OptRel {α β : Type} (R : α → β → Prop) : Option α → Option β → Prop
  | some a, some b => R a b
  | none, none => True
  | _, _ => False

/-- Two dictionaries with the same keys and related cells. -/
def EnvRel {α β : Type} (R : α → β → Prop) (e1 : Env α) (e2 : Env β) : Prop :=
  ∀ n, OptRel R (e1.lookup n) (e2.lookup n)

/-- Noninterference relation between the cells of two incremental runs: same
    representation, same tag, and equal values whenever the tag is `NoChange`
    (a raw cell counts as `NoChange`). -/
def IVal.sim : IVal → IVal → Prop
  | .raw v, .raw w => v = w
  | .diff v t, .diff w u => t = u ∧ (t = .noChange → v = w)
  | _, _ => False

/-- Two argument vectors agree wherever the tag is `NoChange` (and have the tags' length). -/
def AgreeOn : List Tag → List Val → List Val → Prop
  | [], [], [] => True
  | t :: ts, x :: xs, y :: ys => (t = .noChange → x = y) ∧ AgreeOn ts xs ys
  | _, _, _ => False

/-- The handler (if any) handles no primitive. -/
def NoHandle {α} (h : Option (Handler α)) : Prop := ∀ h', h = some h' → ∀ p, h'.handles p = false

/-- Semantics seen by the stateful interpreter under a handler: handled primitives are
    dispatched, the others are bound. -/
def Handler.override (h : Handler Val) (sem : Sem) : Sem :=
  fun p ps vs => if h.handles p then h.dispatch p ps vs else sem p ps vs

/-! ## Generic facts -/

theorem All₂.length_eq {α β} {R : α → β → Prop} {l1 l2} (h : All₂ R l1 l2) : l1.length = l2.length := by
  induction h with
  | nil => rfl
  | cons _ _ ih => simp [ih]

theorem All₂.refl {α} {R : α → α → Prop} (hr : ∀ a, R a a) (l : List α) : All₂ R l l := by
  induction l with
  | nil => exact .nil
  | cons a as ih => exact .cons (hr a) ih

theorem All₂.map {α β γ δ} {R : α → β → Prop} {S : γ → δ → Prop} {f : α → γ} {g : β → δ}
    (hfg : ∀ a b, R a b → S (f a) (g b)) {l1 l2} (h : All₂ R l1 l2) : All₂ S (l1.map f) (l2.map g) := by
  induction h with
  | nil => exact .nil
  | cons hab _ ih => exact .cons (hfg _ _ hab) ih

theorem All₂.of_length {α β γ δ} {S : γ → δ → Prop} {f : α → γ} {g : β → δ} (hS : ∀ a b, S (f a) (g b)) :
    ∀ (l1 : List α) (l2 : List β), l1.length = l2.length → All₂ S (l1.map f) (l2.map g)
  | [], [], _ => .nil
  | a :: as, b :: bs, h => .cons (hS a b) (All₂.of_length hS as bs (by simpa using h))
  | [], _ :: _, h => by simp at h
  | _ :: _, [], h => by simp at h

theorem All₂.get? {α β} {R : α → β → Prop} {l1 l2} (h : All₂ R l1 l2) (i : Nat) :
    OptRel R l1[i]? l2[i]? := by
  induction h generalizing i with
  | nil => simp [OptRel]
  | cons hab _ ih =>
    cases i with
    | zero => simpa [OptRel] using hab
    | succ i => simpa using ih i

theorem All₂.eq_of_eq {α} {l1 l2 : List α} (h : All₂ (· = ·) l1 l2) : l1 = l2 := by
  induction h with
  | nil => rfl
  | cons hab _ ih => rw [hab, ih]

theorem ExRel.bind {α β γ δ} {R : α → β → Prop} {S : γ → δ → Prop}
    {x : Except Err α} {y : Except Err β} {f : α → Except Err γ} {g : β → Except Err δ}
    (hxy : ExRel R x y) (hfg : ∀ a b, R a b → ExRel S (f a) (g b)) : ExRel S (x >>= f) (y >>= g) := by
  cases x <;> cases y <;> simp only [ExRel] at hxy
  · subst hxy; simp [ExRel, Bind.bind, Except.bind]
  · exact hfg _ _ hxy

theorem ExRel.toOk {α β} {R : α → β → Prop} {x : Except Err α} {y : Except Err β}
    (h : ExRel R x y) : OkRel R x y := by
  intro a b hx hy; subst hx hy; exact h

theorem ExRel.eq {α} {x y : Except Err α} (h : ExRel (· = ·) x y) : x = y := by
  cases x <;> cases y <;> simp only [ExRel] at h
  · rw [h]
  · rw [h]

theorem OkRel.bind {α β γ δ} {R : α → β → Prop} {S : γ → δ → Prop}
    {x : Except Err α} {y : Except Err β} {f : α → Except Err γ} {g : β → Except Err δ}
    (hxy : OkRel R x y) (hfg : ∀ a b, R a b → OkRel S (f a) (g b)) : OkRel S (x >>= f) (y >>= g) := by
  intro c d hc hd
  cases x with
  | error e => simp [Bind.bind, Except.bind] at hc
  | ok a =>
    cases y with
    | error e => simp [Bind.bind, Except.bind] at hd
    | ok b => exact hfg a b (hxy a b rfl rfl) c d hc hd

/-! ## Environments -/

theorem Env.lookup_set {α} (e : Env α) (n m : Nat) (c : α) :
    (e.set n c).lookup m = if n = m then some c else e.lookup m := by
  induction e with
  | nil => simp [Env.set, Env.lookup]
  | cons kv rest ih =>
    obtain ⟨k, v⟩ := kv
    by_cases hk : k = n
    · subst hk
      by_cases hm : k = m <;> simp [Env.set, Env.lookup, hm]
    · by_cases hm : k = m
      · subst hm
        have : ¬ n = k := fun h => hk h.symm
        simp [Env.set, Env.lookup, hk, this]
      · simp [Env.set, Env.lookup, hk, hm, ih]

theorem EnvRel.nil {α β} (R : α → β → Prop) : EnvRel R ([] : Env α) ([] : Env β) := by
  intro n; simp [Env.lookup, OptRel]

theorem EnvRel.write {α β} {R : α → β → Prop} {e1 : Env α} {e2 : Env β} (he : EnvRel R e1 e2)
    (b : Binder) {a : α} {c : β} (hac : R a c) : EnvRel R (e1.write b a) (e2.write b c) := by
  cases b with
  | drop => exact he
  | var n =>
    intro m
    simp only [Env.write, Env.lookup_set]
    by_cases h : n = m
    · simpa [h, OptRel] using hac
    · simpa [h] using he m

theorem EnvRel.writeAll {α β} {R : α → β → Prop} {vs1 : List α} {vs2 : List β} (hv : All₂ R vs1 vs2) :
    ∀ {e1 : Env α} {e2 : Env β} (_ : EnvRel R e1 e2) (bs : List Binder),
      EnvRel R (e1.writeAll bs vs1) (e2.writeAll bs vs2) := by
  induction hv with
  | nil => intro e1 e2 he bs; cases bs <;> simpa [Env.writeAll] using he
  | cons hab _ ih =>
    intro e1 e2 he bs
    cases bs with
    | nil => simpa [Env.writeAll] using he
    | cons b bs => exact ih (he.write b hab) bs

theorem EnvRel.writeMany {α β} {R : α → β → Prop} {vs1 : List α} {vs2 : List β} (hv : All₂ R vs1 vs2)
    {e1 : Env α} {e2 : Env β} (he : EnvRel R e1 e2) (bs : List Binder) :
    ExRel (EnvRel R) (e1.writeMany bs vs1) (e2.writeMany bs vs2) := by
  unfold Env.writeMany
  rw [← hv.length_eq]
  by_cases h : bs.length = vs1.length
  · simpa [h, ExRel] using EnvRel.writeAll hv he bs
  · simp [h, ExRel]

theorem EnvRel.read {α β} {R : α → β → Prop} {l1 : Val → α} {l2 : Val → β} (hl : ∀ v, R (l1 v) (l2 v))
    {e1 : Env α} {e2 : Env β} (he : EnvRel R e1 e2) (a : Atom) :
    ExRel R (e1.read l1 a) (e2.read l2 a) := by
  cases a with
  | lit v => simpa [Env.read, Env.get, ExRel] using hl v
  | var n =>
    have := he n
    simp only [Env.read, Env.get]
    cases h1 : e1.lookup n <;> cases h2 : e2.lookup n <;> simp_all [OptRel, ExRel]

theorem EnvRel.readAll {α β} {R : α → β → Prop} {l1 : Val → α} {l2 : Val → β} (hl : ∀ v, R (l1 v) (l2 v))
    {e1 : Env α} {e2 : Env β} (he : EnvRel R e1 e2) (as : List Atom) :
    ExRel (All₂ R) (e1.readAll l1 as) (e2.readAll l2 as) := by
  induction as with
  | nil => simpa [Env.readAll, ExRel] using All₂.nil
  | cons a as ih =>
    have ha := he.read hl a
    simp only [Env.readAll]
    cases h1 : e1.read l1 a <;> cases h2 : e2.read l2 a <;> simp only [h1, h2, ExRel] at ha
    · simpa [ExRel] using ha
    · cases h3 : e1.readAll l1 as <;> cases h4 : e2.readAll l2 as <;> simp only [h3, h4, ExRel] at ih
      · simpa [ExRel] using ih
      · simpa [ExRel] using All₂.cons ha ih

/-! ## wrapOuts -/

theorem wrapOuts_rel {α β} {R : α → β → Prop} {f : Val → α} {g : Val → β} (hfg : ∀ v, R (f v) (g v))
    (multi : Bool) (out : PrimOut Val) :
    ExRel (All₂ R) (wrapOuts multi (out.map f)) (wrapOuts multi (out.map g)) := by
  cases out <;> cases multi <;> simp [wrapOuts, PrimOut.map, ExRel]
  · exact .cons (hfg _) .nil
  · exact All₂.map (R := (· = ·)) (fun a b h => h ▸ hfg a) (All₂.refl (fun _ => rfl) _)

theorem PrimOut.map_id {α} (o : PrimOut α) : o.map id = o := by
  cases o <;> simp [PrimOut.map]

theorem wrapOuts_length {α} {multi : Bool} {o : PrimOut Val} {f : Val → α} {l : List α}
    (h : wrapOuts multi (o.map f) = .ok l) : ∃ l0 : List Val, l = l0.map f := by
  cases o with
  | one v =>
    cases multi <;> simp [wrapOuts, PrimOut.map] at h
    exact ⟨[v], by simp [← h]⟩
  | many vs =>
    cases multi <;> simp [wrapOuts, PrimOut.map] at h
    exact ⟨vs, h.symm⟩

theorem Env.writeMany_ok_length {α} {e e' : Env α} {bs : List Binder} {vs : List α}
    (h : e.writeMany bs vs = .ok e') : bs.length = vs.length ∧ e' = e.writeAll bs vs := by
  unfold Env.writeMany at h
  by_cases hl : bs.length = vs.length <;> simp [hl] at h
  exact ⟨hl, h.symm⟩

/-! ## Incremental vs. stateful: primals -/

/-- The primal of a dual cell is the plain cell. -/
def PrimalIs (d : IVal) (v : Val) : Prop := d.primal = v

theorem IVal.primal_wrap (d : IVal) : d.wrap.primal = d.primal := by cases d <;> rfl
theorem IVal.tangent_wrap (d : IVal) : d.wrap.tangent = d.tangent := by cases d <;> rfl

theorem primals_of_all₂ {ds : List IVal} {vs : List Val} (h : All₂ PrimalIs ds vs) :
    (ds.map IVal.wrap).map IVal.primal = vs := by
  induction h with
  | nil => rfl
  | cons hab _ ih => simp only [List.map_cons, IVal.primal_wrap, ih]; rw [hab]

theorem stepIncr_none_of_noHandle (sem : Sem) (h : Option (Handler IVal)) (hno : NoHandle h) (e : Env IVal)
    (q : Eqn) : stepIncr sem h e q = stepIncr sem none e q := by
  cases h with
  | none => rfl
  | some h' => simp [stepIncr, hno h' rfl]

theorem loopIncr_none_of_noHandle (sem : Sem) (h : Option (Handler IVal)) (hno : NoHandle h) (e : Env IVal)
    (qs : List Eqn) : loopIncr sem h e qs = loopIncr sem none e qs := by
  induction qs generalizing e with
  | nil => rfl
  | cons q qs ih => simp [loopIncr, stepIncr_none_of_noHandle sem h hno, ih]

theorem evalIncr_none_of_noHandle (sem : Sem) (h : Option (Handler IVal)) (hno : NoHandle h) (j : Jaxpr)
    (consts xs : List Val) (tags : List Tag) :
    evalIncr sem h j consts xs tags = evalIncr sem none j consts xs tags := by
  simp [evalIncr, loopIncr_none_of_noHandle sem h hno]

theorem step_primal (sem : Sem) (h : Handler Val) (hno : ∀ p, h.handles p = false) {e1 : Env IVal}
    {e2 : Env Val} (he : EnvRel PrimalIs e1 e2) (q : Eqn) :
    ExRel (EnvRel PrimalIs) (stepIncr sem none e1 q) (stepStateful sem h e2 q) := by
  unfold stepIncr stepStateful
  refine ExRel.bind (he.readAll (l1 := IVal.raw) (l2 := id) (fun _ => rfl) q.ins) ?_
  intro ds vs hdv
  simp only [hno, defaultRule, primals_of_all₂ hdv, Bool.false_eq_true, if_false]
  cases hs : sem q.prim q.params vs with
  | error x => simp [ExRel, Bind.bind, Except.bind]
  | ok out =>
    simp only [Bind.bind, Except.bind, pure, Except.pure]
    have hw := wrapOuts_rel (R := PrimalIs)
      (f := fun v => IVal.diff v (if checkNoChange (ds.map IVal.wrap) = true then Tag.noChange else Tag.unknownChange))
      (g := id) (fun _ => rfl) q.multi out
    rw [PrimOut.map_id] at hw
    exact ExRel.bind hw (fun os vs' hov => EnvRel.writeMany hov he q.outs)

theorem loop_primal (sem : Sem) (h : Handler Val) (hno : ∀ p, h.handles p = false) (qs : List Eqn) :
    ∀ {e1 : Env IVal} {e2 : Env Val}, EnvRel PrimalIs e1 e2 →
      ExRel (EnvRel PrimalIs) (loopIncr sem none e1 qs) (loopStateful sem h e2 qs) := by
  induction qs with
  | nil => intro e1 e2 he; simpa [loopIncr, loopStateful, ExRel] using he
  | cons q qs ih =>
    intro e1 e2 he
    unfold loopIncr loopStateful
    exact ExRel.bind (step_primal sem h hno he q) (fun _ _ he' => ih he')

theorem treeDiff_primal : ∀ (xs : List Val) (tags : List Tag),
    match treeDiff xs tags with
    | .ok ds => All₂ PrimalIs ds xs ∧ xs.length = tags.length
    | .error x => x = .arity ∧ xs.length ≠ tags.length
  | [], [] => by simp [treeDiff]; exact .nil
  | [], _ :: _ => by simp [treeDiff]
  | _ :: _, [] => by simp [treeDiff]
  | x :: xs, t :: ts => by
    have ih := treeDiff_primal xs ts
    simp only [treeDiff]
    cases h : treeDiff xs ts with
    | error e => simp_all [Bind.bind, Except.bind]
    | ok ds =>
      simp only [h] at ih
      simp only [Bind.bind, Except.bind, pure, Except.pure, List.length_cons]
      exact ⟨.cons rfl ih.1, by rw [ih.2]⟩

/-! ## Incremental vs. incremental on agreeing inputs: noninterference -/

theorem IVal.sim_refl (a : IVal) : IVal.sim a a := by cases a <;> simp [IVal.sim]

theorem IVal.sim_wrap {a b : IVal} (h : IVal.sim a b) : IVal.sim a.wrap b.wrap := by
  cases a <;> cases b <;> simp_all [IVal.sim, IVal.wrap]

theorem IVal.sim_tangent {a b : IVal} (h : IVal.sim a b) : a.tangent = b.tangent := by
  cases a <;> cases b <;> simp_all [IVal.sim, IVal.tangent]

theorem IVal.sim_primal {a b : IVal} (h : IVal.sim a b) (ht : a.tangent = .noChange) : a.primal = b.primal := by
  cases a <;> cases b <;> simp_all [IVal.sim, IVal.tangent, IVal.primal]

theorem check_eq_of_sim {ds1 ds2 : List IVal} (h : All₂ IVal.sim ds1 ds2) :
    checkNoChange ds1 = checkNoChange ds2 := by
  induction h with
  | nil => rfl
  | cons hab _ ih =>
    simp only [checkNoChange, List.all_cons] at ih ⊢
    rw [ih, IVal.sim_tangent hab]

theorem primals_eq_of_sim {ds1 ds2 : List IVal} (h : All₂ IVal.sim ds1 ds2)
    (hc : checkNoChange ds1 = true) : ds1.map IVal.primal = ds2.map IVal.primal := by
  induction h with
  | nil => rfl
  | cons hab _ ih =>
    simp only [checkNoChange, List.all_cons, Bool.and_eq_true, decide_eq_true_eq] at hc
    simp only [List.map_cons]
    rw [IVal.sim_primal hab hc.1, ih (by simpa [checkNoChange] using hc.2)]

theorem step_sim (sem : Sem) {e1 e2 : Env IVal} (he : EnvRel IVal.sim e1 e2) (q : Eqn) :
    OkRel (EnvRel IVal.sim) (stepIncr sem none e1 q) (stepIncr sem none e2 q) := by
  unfold stepIncr
  refine OkRel.bind (he.readAll (l1 := IVal.raw) (l2 := IVal.raw) (fun v => IVal.sim_refl _) q.ins).toOk ?_
  intro ds1 ds2 hds
  have hw : All₂ IVal.sim (ds1.map IVal.wrap) (ds2.map IVal.wrap) := All₂.map (fun _ _ h => IVal.sim_wrap h) hds
  have hc := check_eq_of_sim hw
  simp only [defaultRule]
  cases hcheck : checkNoChange (ds1.map IVal.wrap) with
  | true =>
    have hp := primals_eq_of_sim hw hcheck
    rw [← hc, hcheck, ← hp]
    -- identical computations up to the final write
    refine OkRel.bind (R := (· = ·)) (fun a b ha hb => by rw [ha] at hb; exact Except.ok.inj hb) ?_
    intro o1 o2 ho; subst ho
    refine OkRel.bind (R := (· = ·)) (fun a b ha hb => by rw [ha] at hb; exact Except.ok.inj hb) ?_
    intro l1 l2 hl; subst hl
    exact (EnvRel.writeMany (All₂.refl IVal.sim_refl _) he q.outs).toOk
  | false =>
    rw [← hc, hcheck]
    intro e1' e2' h1 h2
    -- both runs succeeded: every written cell is tagged UnknownChange, lengths match the binders
    cases hs1 : sem q.prim q.params ((ds1.map IVal.wrap).map IVal.primal) with
    | error x => rw [hs1] at h1; simp [Bind.bind, Except.bind] at h1
    | ok o1 =>
      cases hs2 : sem q.prim q.params ((ds2.map IVal.wrap).map IVal.primal) with
      | error x => rw [hs2] at h2; simp [Bind.bind, Except.bind] at h2
      | ok o2 =>
        rw [hs1] at h1; rw [hs2] at h2
        simp only [Bind.bind, Except.bind, pure, Except.pure, Bool.false_eq_true, if_false] at h1 h2
        cases hw1 : wrapOuts q.multi (o1.map fun v => IVal.diff v Tag.unknownChange) with
        | error x => simp [hw1] at h1
        | ok l1 =>
          cases hw2 : wrapOuts q.multi (o2.map fun v => IVal.diff v Tag.unknownChange) with
          | error x => simp [hw2] at h2
          | ok l2 =>
            simp only [hw1, hw2] at h1 h2
            obtain ⟨m1, rfl⟩ := wrapOuts_length hw1
            obtain ⟨m2, rfl⟩ := wrapOuts_length hw2
            obtain ⟨hl1, rfl⟩ := Env.writeMany_ok_length h1
            obtain ⟨hl2, rfl⟩ := Env.writeMany_ok_length h2
            have hlen : m1.length = m2.length := by simpa using hl1.symm.trans hl2
            exact EnvRel.writeAll (All₂.of_length (S := IVal.sim) (by intro a b; simp [IVal.sim]) m1 m2 hlen) he q.outs

theorem loop_sim (sem : Sem) (qs : List Eqn) :
    ∀ {e1 e2 : Env IVal}, EnvRel IVal.sim e1 e2 →
      OkRel (EnvRel IVal.sim) (loopIncr sem none e1 qs) (loopIncr sem none e2 qs) := by
  induction qs with
  | nil =>
    intro e1 e2 he a b ha hb
    simp only [loopIncr] at ha hb
    cases ha; cases hb; exact he
  | cons q qs ih =>
    intro e1 e2 he
    unfold loopIncr
    exact OkRel.bind (step_sim sem he q) (fun _ _ he' => ih he')

theorem treeDiff_sim : ∀ (tags : List Tag) (xs ys : List Val), AgreeOn tags xs ys →
    ExRel (All₂ IVal.sim) (treeDiff xs tags) (treeDiff ys tags)
  | [], [], [], _ => by simp [treeDiff, ExRel]; exact .nil
  | t :: ts, x :: xs, y :: ys, h => by
    have ih := treeDiff_sim ts xs ys h.2
    simp only [treeDiff]
    cases h1 : treeDiff xs ts <;> cases h2 : treeDiff ys ts <;> simp only [h1, h2, ExRel] at ih
    · simpa [ExRel, Bind.bind, Except.bind] using ih
    · simp only [ExRel, Bind.bind, Except.bind, pure, Except.pure]
      exact .cons ⟨rfl, h.1⟩ ih
  | [], [], _ :: _, h => by simp [AgreeOn] at h
  | [], _ :: _, _, h => by simp [AgreeOn] at h
  | _ :: _, [], _, h => by simp [AgreeOn] at h
  | _ :: _, _ :: _, [], h => by simp [AgreeOn] at h

/-! ## Tags: all inputs NoChange ⇒ every cell NoChange (diagonal instance of `EnvRel`) -/

/-- Diagonal relation: the same cell on both sides, tagged (or counting as) `NoChange`. -/
def IsNoChange (a b : IVal) : Prop := a = b ∧ a.tangent = .noChange

theorem ExRel.refl {α} {R : α → α → Prop} (hr : ∀ a, R a a) (x : Except Err α) : ExRel R x x := by
  cases x <;> simp [ExRel, hr]

theorem all₂_isNoChange {ds ds' : List IVal} (h : All₂ IsNoChange ds ds') :
    ds = ds' ∧ checkNoChange (ds.map IVal.wrap) = true := by
  induction h with
  | nil => exact ⟨rfl, rfl⟩
  | cons hab _ ih =>
    obtain ⟨rfl, ht⟩ := hab
    obtain ⟨rfl, hc⟩ := ih
    refine ⟨rfl, ?_⟩
    simp only [checkNoChange, List.map_cons, List.all_cons, IVal.tangent_wrap, Bool.and_eq_true,
      decide_eq_true_eq]
    exact ⟨ht, by simpa [checkNoChange] using hc⟩

theorem all₂_isNoChange_mem {l l' : List IVal} (h : All₂ IsNoChange l l') :
    ∀ d ∈ l, d.tangent = .noChange := by
  induction h with
  | nil => intro d hd; cases hd
  | cons hab _ ih =>
    intro d hd
    cases hd with
    | head => exact hab.2
    | tail _ hm => exact ih d hm

theorem step_noChange (sem : Sem) {e e' : Env IVal} (he : EnvRel IsNoChange e e') (q : Eqn) :
    ExRel (EnvRel IsNoChange) (stepIncr sem none e q) (stepIncr sem none e' q) := by
  unfold stepIncr
  refine ExRel.bind (he.readAll (l1 := IVal.raw) (l2 := IVal.raw) (fun v => ⟨rfl, rfl⟩) q.ins) ?_
  intro ds ds' hds
  obtain ⟨rfl, hc⟩ := all₂_isNoChange hds
  simp only [defaultRule, hc, if_true]
  cases hs : sem q.prim q.params ((ds.map IVal.wrap).map IVal.primal) with
  | error x => simp [ExRel, Bind.bind, Except.bind]
  | ok out =>
    simp only [Bind.bind, Except.bind, pure, Except.pure]
    exact ExRel.bind (wrapOuts_rel (R := IsNoChange) (f := fun v => IVal.diff v .noChange)
      (g := fun v => IVal.diff v .noChange) (fun v => ⟨rfl, rfl⟩) q.multi out)
      (fun _ _ hl => EnvRel.writeMany hl he q.outs)

theorem loop_noChange (sem : Sem) (qs : List Eqn) :
    ∀ {e e' : Env IVal}, EnvRel IsNoChange e e' →
      ExRel (EnvRel IsNoChange) (loopIncr sem none e qs) (loopIncr sem none e' qs) := by
  induction qs with
  | nil => intro e e' he; simpa [loopIncr, ExRel] using he
  | cons q qs ih =>
    intro e e' he
    unfold loopIncr
    exact ExRel.bind (step_noChange sem he q) (fun _ _ he' => ih he')

/-! ## Stateful vs. reference evaluator -/

/-- The dictionary and the reference environment hold the same bindings. -/
def Agree (e : Env Val) (ρ : FEnv) : Prop := ∀ n, e.lookup n = ρ n

theorem Agree.write {e : Env Val} {ρ : FEnv} (h : Agree e ρ) (b : Binder) (v : Val) :
    Agree (e.write b v) (ρ.bind b v) := by
  cases b with
  | drop => exact h
  | var n =>
    intro m
    simp only [Env.write, FEnv.bind, Env.lookup_set]
    by_cases hm : n = m
    · simp [hm]
    · have : ¬ m = n := fun x => hm x.symm
      simp [hm, this, h m]

theorem Agree.writeMany : ∀ (bs : List Binder) (vs : List Val) {e : Env Val} {ρ : FEnv}, Agree e ρ →
    ExRel Agree (e.writeMany bs vs) (ρ.bindAll bs vs)
  | [], [], e, ρ, h => by simpa [Env.writeMany, Env.writeAll, FEnv.bindAll, ExRel] using h
  | [], _ :: _, e, ρ, h => by simp [Env.writeMany, FEnv.bindAll, ExRel]
  | _ :: _, [], e, ρ, h => by simp [Env.writeMany, FEnv.bindAll, ExRel]
  | b :: bs, v :: vs, e, ρ, h => by
    have ih := Agree.writeMany bs vs (h.write b v)
    simp only [Env.writeMany, List.length_cons, Nat.add_right_cancel_iff, Env.writeAll, FEnv.bindAll] at ih ⊢
    exact ih

theorem Agree.read {e : Env Val} {ρ : FEnv} (h : Agree e ρ) (a : Atom) : e.read id a = ρ.atom a := by
  cases a with
  | lit v => rfl
  | var n =>
    simp only [Env.read, Env.get, FEnv.atom, h n]
    cases ρ n <;> rfl

theorem Agree.readAll {e : Env Val} {ρ : FEnv} (h : Agree e ρ) (as : List Atom) :
    e.readAll id as = ρ.atoms as := by
  induction as with
  | nil => rfl
  | cons a as ih =>
    simp only [Env.readAll, FEnv.atoms, h.read a, ih]
    cases ρ.atom a with
    | error x => rfl
    | ok v => cases ρ.atoms as <;> rfl

/-- One equation of `eval_jaxpr` (the body of `evalEqns`). -/
def stepPlain (sem : Sem) (ρ : FEnv) (q : Eqn) : Except Err FEnv := do
  let vs ← ρ.atoms q.ins
  let out ← sem q.prim q.params vs
  let outs ← wrapOuts q.multi out
  ρ.bindAll q.outs outs

theorem evalEqns_cons (sem : Sem) (ρ : FEnv) (q : Eqn) (qs : List Eqn) :
    evalEqns sem ρ (q :: qs) = stepPlain sem ρ q >>= fun ρ' => evalEqns sem ρ' qs := by
  simp [evalEqns, stepPlain, bind_assoc]

theorem step_plain (sem : Sem) (h : Handler Val) {e : Env Val} {ρ : FEnv} (he : Agree e ρ) (q : Eqn) :
    ExRel Agree (stepStateful sem h e q) (stepPlain (h.override sem) ρ q) := by
  unfold stepStateful stepPlain
  rw [he.readAll]
  refine ExRel.bind (R := (· = ·)) (ExRel.refl (fun _ => rfl) _) ?_
  intro vs vs' hv; subst hv
  have key : ∀ x : Except Err (PrimOut Val),
      ExRel Agree (x >>= fun out => wrapOuts q.multi out >>= fun outvals => e.writeMany q.outs outvals)
        (x >>= fun out => wrapOuts q.multi out >>= fun outs => ρ.bindAll q.outs outs) := by
    intro x
    refine ExRel.bind (R := (· = ·)) (ExRel.refl (fun _ => rfl) _) ?_
    intro o o' ho; subst ho
    refine ExRel.bind (R := (· = ·)) (ExRel.refl (fun _ => rfl) _) ?_
    intro l l' hl; subst hl
    exact Agree.writeMany q.outs l he
  by_cases hh : h.handles q.prim = true
  · simpa only [Handler.override, hh, if_true] using key _
  · have hf : h.handles q.prim = false := by simpa using hh
    simpa only [Handler.override, hf, Bool.false_eq_true, if_false] using key _

theorem loop_plain (sem : Sem) (h : Handler Val) (qs : List Eqn) :
    ∀ {e : Env Val} {ρ : FEnv}, Agree e ρ →
      ExRel Agree (loopStateful sem h e qs) (evalEqns (h.override sem) ρ qs) := by
  induction qs with
  | nil => intro e ρ he; simpa [loopStateful, evalEqns, ExRel] using he
  | cons q qs ih =>
    intro e ρ he
    rw [evalEqns_cons]
    unfold loopStateful
    exact ExRel.bind (step_plain sem h he q) (fun _ _ he' => ih he')

theorem Agree.empty : Agree ([] : Env Val) FEnv.empty := fun _ => rfl

/-! ## Whole-program simulations -/

theorem all₂_map_left {α β} {R : β → α → Prop} {f : α → β} (hf : ∀ a, R (f a) a) (l : List α) :
    All₂ R (l.map f) l := by
  induction l with
  | nil => exact .nil
  | cons a as ih => exact .cons (hf a) ih

theorem map_primal_of_all₂ {ds : List IVal} {vs : List Val} (h : All₂ PrimalIs ds vs) :
    ds.map IVal.primal = vs := by
  induction h with
  | nil => rfl
  | cons hab _ ih => simp only [List.map_cons, ih]; rw [hab]

/-- Incremental run (no handler) against the stateful run with a handler that handles nothing:
    same errors, and on success the primals of the former are the values of the latter. -/
theorem evalIncr_sim_stateful (sem : Sem) (h : Handler Val) (hno : ∀ p, h.handles p = false) (j : Jaxpr)
    (consts xs : List Val) (tags : List Tag) (hlen : xs.length = tags.length) :
    ExRel (All₂ PrimalIs) (evalIncr sem none j consts xs tags) (evalStateful sem h j consts xs) := by
  unfold evalIncr evalStateful
  refine ExRel.bind (R := EnvRel PrimalIs) (EnvRel.writeMany
    (all₂_map_left (R := PrimalIs) (f := fun c => IVal.diff c .noChange) (fun _ => rfl) consts)
    (EnvRel.nil _) _) ?_
  intro e1 e2 he
  have htd := treeDiff_primal xs tags
  cases hd : treeDiff xs tags with
  | error x => rw [hd] at htd; exact absurd hlen htd.2
  | ok ds =>
    rw [hd] at htd
    simp only [Bind.bind, Except.bind]
    refine ExRel.bind (EnvRel.writeMany htd.1 he _) ?_
    intro e1' e2' he'
    refine ExRel.bind (loop_primal sem h hno j.eqns he') ?_
    intro e1'' e2'' he''
    exact he''.readAll (l1 := IVal.raw) (l2 := id) (fun _ => rfl) j.outvars

theorem treeDiff_arity {xs : List Val} {tags : List Tag} (hlen : xs.length ≠ tags.length) :
    treeDiff xs tags = .error .arity := by
  have htd := treeDiff_primal xs tags
  cases hd : treeDiff xs tags with
  | error x => rw [hd] at htd; rw [htd.1]
  | ok ds => rw [hd] at htd; exact absurd htd.2 hlen

theorem Env.writeMany_error {α} {e : Env α} {bs : List Binder} {vs : List α} {x : Err}
    (h : e.writeMany bs vs = .error x) : x = .arity := by
  unfold Env.writeMany at h
  by_cases hl : bs.length = vs.length <;> simp [hl] at h
  exact h.symm

/-- The stateful interpreter is the reference evaluator under the handler-overridden semantics. -/
theorem evalStateful_eq_plain_override (sem : Sem) (h : Handler Val) (j : Jaxpr) (consts args : List Val) :
    evalStateful sem h j consts args = evalPlain (h.override sem) j consts args := by
  apply ExRel.eq
  unfold evalStateful evalPlain
  refine ExRel.bind (Agree.writeMany _ consts Agree.empty) ?_
  intro e ρ he
  refine ExRel.bind (Agree.writeMany _ args he) ?_
  intro e' ρ' he'
  refine ExRel.bind (loop_plain sem h j.eqns he') ?_
  intro e'' ρ'' he''
  rw [he''.readAll]
  exact ExRel.refl (fun _ => rfl) _

theorem Handler.override_of_noHandle (sem : Sem) (h : Handler Val) (hno : ∀ p, h.handles p = false) :
    h.override sem = sem := by
  funext p ps vs
  simp [Handler.override, hno]

theorem all₂_sim_consts (consts : List Val) :
    All₂ IVal.sim (consts.map fun c => IVal.diff c .noChange) (consts.map fun c => IVal.diff c .noChange) :=
  All₂.refl IVal.sim_refl _

/-- Two incremental runs on inputs that agree at `NoChange` positions: if both succeed the
    outputs are related by `IVal.sim`. -/
theorem evalIncr_sim (sem : Sem) (j : Jaxpr) (consts xs ys : List Val) (tags : List Tag)
    (hag : AgreeOn tags xs ys) :
    OkRel (All₂ IVal.sim) (evalIncr sem none j consts xs tags) (evalIncr sem none j consts ys tags) := by
  unfold evalIncr
  refine OkRel.bind (EnvRel.writeMany (all₂_sim_consts consts) (EnvRel.nil _) _).toOk ?_
  intro e1 e2 he
  refine OkRel.bind (treeDiff_sim tags xs ys hag).toOk ?_
  intro ds1 ds2 hds
  refine OkRel.bind (EnvRel.writeMany hds he _).toOk ?_
  intro e1' e2' he'
  refine OkRel.bind (loop_sim sem j.eqns he') ?_
  intro e1'' e2'' he''
  exact (he''.readAll (l1 := IVal.raw) (l2 := IVal.raw) (fun _ => IVal.sim_refl _) j.outvars).toOk

theorem treeDiff_noChange : ∀ (xs : List Val) (tags : List Tag), (∀ t ∈ tags, t = Tag.noChange) →
    ExRel (All₂ IsNoChange) (treeDiff xs tags) (treeDiff xs tags)
  | [], [], _ => by simp [treeDiff, ExRel]; exact .nil
  | [], _ :: _, _ => by simp [treeDiff, ExRel]
  | _ :: _, [], _ => by simp [treeDiff, ExRel]
  | x :: xs, t :: ts, h => by
    have ih := treeDiff_noChange xs ts (fun t' ht' => h t' (List.mem_cons_of_mem _ ht'))
    have ht : t = Tag.noChange := h t (List.mem_cons_self ..)
    simp only [treeDiff]
    cases h1 : treeDiff xs ts with
    | error e => simp [ExRel, Bind.bind, Except.bind]
    | ok ds =>
      simp only [h1, ExRel] at ih
      simp only [ExRel, Bind.bind, Except.bind, pure, Except.pure]
      exact .cons ⟨rfl, ht⟩ ih

/-- With every input tagged `NoChange`, every output cell is tagged (or counts as) `NoChange`. -/
theorem evalIncr_noChange (sem : Sem) (j : Jaxpr) (consts xs : List Val) (tags : List Tag)
    (hall : ∀ t ∈ tags, t = Tag.noChange) :
    ExRel (All₂ IsNoChange) (evalIncr sem none j consts xs tags) (evalIncr sem none j consts xs tags) := by
  unfold evalIncr
  refine ExRel.bind (R := EnvRel IsNoChange)
    (EnvRel.writeMany (All₂.map (R := (· = ·)) (f := fun c => IVal.diff c .noChange)
      (g := fun c => IVal.diff c .noChange) (fun a b hab => hab ▸ ⟨rfl, rfl⟩)
      (All₂.refl (fun _ => rfl) consts)) (EnvRel.nil _) _) ?_
  intro e1 e2 he
  refine ExRel.bind (treeDiff_noChange xs tags hall) ?_
  intro ds1 ds2 hds
  refine ExRel.bind (EnvRel.writeMany hds he _) ?_
  intro e1' e2' he'
  refine ExRel.bind (loop_noChange sem j.eqns he') ?_
  intro e1'' e2'' he''
  exact he''.readAll (l1 := IVal.raw) (l2 := IVal.raw) (fun _ => ⟨rfl, rfl⟩) j.outvars

/-! ## Binding a list of distinct variables and reading them back (reference environment) -/

theorem FEnv.bindAll_arity {ρ : FEnv} : ∀ {bs : List Binder} {vs : List Val}, bs.length ≠ vs.length →
    ρ.bindAll bs vs = .error .arity
  | [], [], h => absurd rfl h
  | [], _ :: _, _ => rfl
  | _ :: _, [], _ => rfl
  | b :: bs, v :: vs, h => by
    simp only [FEnv.bindAll]
    exact FEnv.bindAll_arity (ρ := ρ.bind b v) (by simpa using h)

theorem FEnv.bindAll_append {ρ : FEnv} : ∀ (bs1 : List Binder) (vs1 : List Val) (bs2 : List Binder) (vs2 : List Val),
    bs1.length = vs1.length →
    ρ.bindAll (bs1 ++ bs2) (vs1 ++ vs2) = ρ.bindAll bs1 vs1 >>= fun ρ1 => ρ1.bindAll bs2 vs2
  | [], [], bs2, vs2, _ => by simp [FEnv.bindAll, Bind.bind, Except.bind]
  | [], _ :: _, _, _, h => by simp at h
  | _ :: _, [], _, _, h => by simp at h
  | b :: bs1, v :: vs1, bs2, vs2, h => by
    simp only [List.cons_append, FEnv.bindAll]
    exact FEnv.bindAll_append (ρ := ρ.bind b v) bs1 vs1 bs2 vs2 (by simpa using h)

theorem FEnv.bindAll_atoms : ∀ (ns : List Nat) (vs : List Val) {ρ ρ' : FEnv}, ns.Nodup →
    ρ.bindAll (ns.map .var) vs = .ok ρ' →
    ρ'.atoms (ns.map .var) = .ok vs ∧ ∀ m, m ∉ ns → ρ' m = ρ m
  | [], [], ρ, ρ', _, h => by
    simp only [List.map_nil, FEnv.bindAll] at h
    cases h
    exact ⟨rfl, fun _ _ => rfl⟩
  | [], _ :: _, ρ, ρ', _, h => by simp [FEnv.bindAll] at h
  | _ :: _, [], ρ, ρ', _, h => by simp [FEnv.bindAll] at h
  | n :: ns, v :: vs, ρ, ρ', hnd, h => by
    simp only [List.map_cons, FEnv.bindAll] at h
    have hn : n ∉ ns := (List.nodup_cons.mp hnd).1
    obtain ⟨ih1, ih2⟩ := FEnv.bindAll_atoms ns vs (List.nodup_cons.mp hnd).2 h
    have hρn : ρ' n = some v := by rw [ih2 n hn]; simp [FEnv.bind]
    refine ⟨?_, ?_⟩
    · simp [FEnv.atoms, FEnv.atom, hρn, ih1, Bind.bind, Except.bind, pure, Except.pure]
    · intro m hm
      have hm' : m ≠ n ∧ m ∉ ns := by simpa using hm
      rw [ih2 m hm'.2]
      simp [FEnv.bind, hm'.1]

theorem FEnv.bindAll_ok_of_length {ρ : FEnv} : ∀ (bs : List Binder) (vs : List Val), bs.length = vs.length →
    ∃ ρ', ρ.bindAll bs vs = .ok ρ'
  | [], [], _ => ⟨ρ, rfl⟩
  | [], _ :: _, h => by simp at h
  | _ :: _, [], h => by simp at h
  | b :: bs, v :: vs, h => by
    simp only [FEnv.bindAll]
    exact FEnv.bindAll_ok_of_length (ρ := ρ.bind b v) bs vs (by simpa using h)

/-- The jaxpr obtained by staging `lambda *args: initial_style_bind(p)(g)(*args)`: one
    equation `outs = p[impl=J, num_consts=|consts|] consts args`, where `J` is `g` staged. -/
def isCall (p : String) (J : Jaxpr) (cv iv ov : List Nat) : Jaxpr :=
  .mk cv iv
    [.mk p true [("impl", .closed J []), ("num_consts", .int cv.length)] ((cv ++ iv).map .var) (ov.map .var)]
    (ov.map .var)

end GenjaxVerif.IR
