import GenjaxVerif.Model.Chm
import GenjaxVerif.Lemmas.Sel
/-! Helper lemmas for model C (choice maps).  Property theorems live in `Props/C17.lean`
    and `Props/C33.lean`. -/
namespace GenjaxVerif.Chm

/-! ### `mapM` in `Except` -/

/-- Pointwise relation between two lists of the same length. -/
inductive All₂ {α β} (R : α → β → Prop) : List α → List β → Prop
  | nil : All₂ R [] []
  | cons {a b l l'} : R a b → All₂ R l l' → All₂ R (a :: l) (b :: l')

theorem All₂.imp {α β} {R S : α → β → Prop} (h : ∀ a b, R a b → S a b) :
    ∀ {l l'}, All₂ R l l' → All₂ S l l'
  | _, _, .nil => .nil
  | _, _, .cons r t => .cons (h _ _ r) (All₂.imp h t)

theorem mapM_ok {α β ε} {f : α → Except ε β} :
    ∀ {l : List α} {rs : List β}, l.mapM f = .ok rs → All₂ (fun a b => f a = .ok b) l rs := by
  intro l
  induction l with
  | nil => intro rs h; simp [pure, Except.pure] at h; subst h; exact .nil
  | cons a l ih =>
    intro rs h
    rw [List.mapM_cons] at h
    cases hfa : f a with
    | error e => simp [hfa, bind, Except.bind] at h
    | ok b =>
      cases hl : l.mapM f with
      | error e => simp [hfa, hl, bind, Except.bind] at h
      | ok bs =>
        simp [hfa, hl, bind, Except.bind, pure, Except.pure] at h
        subst h
        exact .cons hfa (ih hl)

theorem bind_ok {α β ε} {x : Except ε α} {f : α → Except ε β} {r : β} (h : (x >>= f) = .ok r) :
    ∃ a, x = .ok a ∧ f a = .ok r := by
  cases x with
  | error e => simp [bind, Except.bind] at h
  | ok a => exact ⟨a, rfl, h⟩

theorem pure_ok {α ε} {a r : α} (h : (pure a : Except ε α) = .ok r) : a = r := by
  simpa [pure, Except.pure] using h

/-- Entry-wise `mapM` that keeps the key. -/
theorem mapM_entries_ok {g : String × Chm → Except ChmErr Chm} {m es : List (String × Chm)}
    (h : m.mapM (fun e => do pure (e.1, ← g e)) = .ok es) :
    All₂ (fun e e' => e'.1 = e.1 ∧ g e = .ok e'.2) m es := by
  have := mapM_ok h
  refine All₂.imp ?_ this
  intro e e' he
  cases hg : g e with
  | error x => simp [hg, bind, Except.bind] at he
  | ok r =>
    simp [hg, bind, Except.bind, pure, Except.pure] at he
    subst he; exact ⟨rfl, rfl⟩

theorem forall₂_keys {R : String × Chm → Chm → Prop} {m es : List (String × Chm)}
    (h : All₂ (fun e e' => e'.1 = e.1 ∧ R e e'.2) m es) : keys es = keys m := by
  induction h with
  | nil => rfl
  | cons hd _ ih => simp [keys] at ih ⊢; exact ⟨hd.1, ih⟩

/-! ### Basic facts about `den` -/

@[simp] theorem den_empty (is : List Nat) (p : Path) : den empty is p = none := by
  unfold empty
  rw [den]
  split <;> simp [denL]

theorem staticIsEmpty_eq {c : Chm} (h : staticIsEmpty c = true) : c = empty := by
  unfold staticIsEmpty at h
  split at h <;> simp_all [empty]

theorem denL_not_mem {m : List (String × Chm)} {x : String} (h : (keys m).contains x = false)
    (is : List Nat) (q : Path) : denL m x is q = none := by
  induction m with
  | nil => simp [denL]
  | cons e r ih =>
    obtain ⟨k, c⟩ := e
    simp [keys] at h ih
    simp only [denL]
    rw [if_neg (by intro hx; exact h.1 hx)]
    exact ih h.2

/-- Dropping the `static_is_empty` entries (`Static.build`) does not change any lookup,
    provided the keys are unique. -/
theorem denL_filter {m : List (String × Chm)} (hk : (keys m).Nodup) (x : String) (is : List Nat) (q : Path) :
    denL (m.filter (fun e => !staticIsEmpty e.2)) x is q = denL m x is q := by
  induction m with
  | nil => rfl
  | cons e r ih =>
    obtain ⟨k, c⟩ := e
    simp [keys] at hk
    have ihr := ih (by simpa [keys] using hk.2)
    by_cases hc : staticIsEmpty c = true
    · simp only [List.filter, hc, Bool.not_true, denL]
      by_cases hx : x = k
      · subst hx
        rw [if_pos rfl, staticIsEmpty_eq hc, den_empty, ihr]
        apply denL_not_mem
        simp [keys]; intro c' hm; exact hk.1 c' hm
      · rw [if_neg hx]; exact ihr
    · simp only [Bool.not_eq_true] at hc
      simp only [List.filter, hc, Bool.not_false, denL, ihr]

theorem den_mkStatic {es : List (String × Chm)} (hk : (keys es).Nodup) (is : List Nat) (p : Path) :
    den (mkStatic es) is p = den (stat es) is p := by
  unfold mkStatic
  rw [den, den]
  split <;> simp_all [denL_filter hk]

/-! ### `usable`: the valid value of a lookup, if any -/

/-- The usable (valid) value of a lookup. -/
def usable : Option MV → Option Payload
  | some ⟨true, v⟩ => some v
  | _ => none

theorem usable_orMV (a b : Option MV) : usable (orMV a b) = (usable a).orElse (fun _ => usable b) := by
  cases a with
  | none => cases b <;> simp [orMV, usable]
  | some x =>
    obtain ⟨va, pa⟩ := x
    cases b with
    | none => cases va <;> simp [orMV, usable]
    | some y => obtain ⟨vb, pb⟩ := y; cases va <;> cases vb <;> simp [orMV, usable]

theorem usable_andMV (f : Bool) (a : Option MV) : usable (andMV f a) = if f then usable a else none := by
  cases a with
  | none => cases f <;> simp [andMV, usable]
  | some x => obtain ⟨v, p⟩ := x; cases f <;> cases v <;> simp [andMV, usable]

end GenjaxVerif.Chm

namespace GenjaxVerif.Chm
open Sel

/-! ### Invariant bookkeeping -/

theorem wfL_nodup {m : List (String × Chm)} (h : wfL m = true) : (keys m).Nodup := by
  induction m with
  | nil => simp [keys]
  | cons e r ih =>
    obtain ⟨k, c⟩ := e
    simp [wfL, keys] at h ⊢
    refine ⟨?_, ih (by simpa using h.2)⟩
    intro c' hm; exact h.1.2 c' hm

theorem addrs_empty_of_staticIsEmpty {c : Chm} (h : staticIsEmpty c = true) : addrs c = [] := by
  rw [staticIsEmpty_eq h]; simp [empty, addrs, addrsL]

theorem addrsL_filter (m : List (String × Chm)) :
    addrsL (m.filter (fun e => !staticIsEmpty e.2)) = addrsL m := by
  induction m with
  | nil => rfl
  | cons e r ih =>
    obtain ⟨k, c⟩ := e
    by_cases hc : staticIsEmpty c = true
    · simp [List.filter, hc, addrsL, ih, addrs_empty_of_staticIsEmpty hc]
    · simp only [Bool.not_eq_true] at hc
      simp [List.filter, hc, addrsL, ih]

theorem mem_cons_eq (s : Sel) (x : String) (q : List String) : mem s (x :: q) = mem (sub s x) q := rfl

theorem statics_idxPath_append (js : List Nat) (p : Path) : statics (idxPath js ++ p) = statics p := by
  induction js with
  | nil => rfl
  | cons j r ih => simpa [idxPath, statics] using ih

theorem splitIdx_spec (p : Path) : p = idxPath (splitIdx p).1 ++ (splitIdx p).2 ∧
    (∀ n q, (splitIdx p).2 ≠ .i n :: q) := by
  induction p with
  | nil => simp [splitIdx, idxPath]
  | cons c r ih =>
    cases c with
    | s x => simp [splitIdx, idxPath]
    | i n => simp [splitIdx, idxPath] at ih ⊢; exact ⟨ih.1, ih.2⟩

theorem statics_split (p : Path) : statics p = statics (splitIdx p).2 := by
  have h := (splitIdx_spec p).1
  calc statics p = statics (idxPath (splitIdx p).1 ++ (splitIdx p).2) := by rw [← h]
    _ = _ := statics_idxPath_append _ _

/-! ### `filter(selection)` on the static fragment -/

/-- What `filter(selection)` must achieve for one map. -/
def SelSpec (s : Sel) (c r : Chm) : Prop :=
  staticOnly r = true ∧ wf r = true ∧
  (∀ is p, den r is p = if mem s (statics p) = true then den c is p else none) ∧
  (∀ q, q ∈ addrs r ↔ q ∈ addrs c ∧ mem s q = true)

theorem selSpec_list (s : Sel) {m es : List (String × Chm)}
    (h : All₂ (fun e e' => e'.1 = e.1 ∧ SelSpec (sub s e.1) e.2 e'.2) m es) :
    staticOnlyL es = true ∧ (∀ e ∈ es, wf e.2 = true) ∧
    (∀ x is q, denL es x is q = if mem (sub s x) (statics q) = true then denL m x is q else none) ∧
    (∀ q, q ∈ addrsL es ↔ q ∈ addrsL m ∧ mem s q = true) := by
  induction h with
  | nil => simp [staticOnlyL, denL, addrsL]
  | @cons e e' r r' hd _ ih =>
    obtain ⟨k, c⟩ := e
    obtain ⟨k', c'⟩ := e'
    obtain ⟨hk, hso, hwf, hden, haddr⟩ := hd
    simp only at hk hso hwf hden haddr
    subst hk
    obtain ⟨i1, i2, i3, i4⟩ := ih
    refine ⟨by simp [staticOnlyL, hso, i1], ?_, ?_, ?_⟩
    · intro e he
      simp at he
      rcases he with rfl | he
      · exact hwf
      · exact i2 e he
    · intro x is q
      simp only [denL]
      by_cases hx : x = k'
      · subst hx; simp [hden]
      · simp [hx, i3]
    · intro q
      simp only [addrsL, List.mem_append, List.mem_map, i4, haddr]
      constructor
      · rintro (⟨q', ⟨h1, h2⟩, rfl⟩ | ⟨h1, h2⟩)
        · exact ⟨Or.inl ⟨q', h1, rfl⟩, by rw [mem_cons_eq]; exact h2⟩
        · exact ⟨Or.inr h1, h2⟩
      · rintro ⟨(⟨q', h1, rfl⟩ | h1), h2⟩
        · exact Or.inl ⟨q', ⟨h1, by rw [mem_cons_eq] at h2; exact h2⟩, rfl⟩
        · exact Or.inr ⟨h1, h2⟩

theorem staticOnlyL_filter {es : List (String × Chm)} (p : String × Chm → Bool) (h : staticOnlyL es = true) :
    staticOnlyL (es.filter p) = true := by
  induction es with
  | nil => rfl
  | cons e r ih =>
    obtain ⟨k, c⟩ := e
    simp [staticOnlyL] at h
    by_cases hp : p (k, c) = true
    · simp [List.filter, hp, staticOnlyL, h.1, ih h.2]
    · simp only [Bool.not_eq_true] at hp
      simp [List.filter, hp, ih h.2]

theorem wfL_filter {es : List (String × Chm)} (hk : (keys es).Nodup) (hw : ∀ e ∈ es, wf e.2 = true) :
    wfL (es.filter (fun e => !staticIsEmpty e.2)) = true := by
  induction es with
  | nil => rfl
  | cons e r ih =>
    obtain ⟨k, c⟩ := e
    simp [keys] at hk
    have ihr := ih (by simpa [keys] using hk.2) (fun e he => hw e (List.mem_cons_of_mem _ he))
    by_cases hc : staticIsEmpty c = true
    · simpa [List.filter, hc] using ihr
    · simp only [Bool.not_eq_true] at hc
      have hwc := hw (k, c) (List.mem_cons_self ..)
      simp only at hwc
      simp [List.filter, hc, wfL, hwc, ihr, keys]
      intro c' hm; exact absurd hm (hk.1 c')

theorem wf_stat_iff (m : List (String × Chm)) : wf (stat m) = wfL m := by rw [wf]
theorem staticOnly_stat_iff (m : List (String × Chm)) : staticOnly (stat m) = staticOnlyL m := by rw [staticOnly]

theorem wfL_entries {m : List (String × Chm)} (h : wfL m = true) : ∀ e ∈ m, wf e.2 = true := by
  induction m with
  | nil => simp
  | cons e r ih =>
    obtain ⟨k, c⟩ := e
    simp [wfL] at h
    intro e he
    simp at he
    rcases he with rfl | he
    · exact h.1.1.1
    · exact ih h.2 e he

theorem staticOnlyL_entries {m : List (String × Chm)} (h : staticOnlyL m = true) : ∀ e ∈ m, staticOnly e.2 = true := by
  induction m with
  | nil => simp
  | cons e r ih =>
    obtain ⟨k, c⟩ := e
    simp [staticOnlyL] at h
    intro e he
    simp at he
    rcases he with rfl | he
    · exact h.1
    · exact ih h.2 e he

theorem All₂.of_mem {α β} {R S : α → β → Prop} {l l'} (h : All₂ R l l') (f : ∀ a ∈ l, ∀ b, R a b → S a b) : All₂ S l l' := by
  induction h with
  | nil => exact .nil
  | cons r _ ih =>
    exact .cons (f _ (List.mem_cons_self ..) _ r) (ih (fun a ha b => f a (List.mem_cons_of_mem _ ha) b))

theorem filterSel_spec : ∀ (n : Nat) (c : Chm) (s : Sel) (r : Chm), staticOnly c = true → wf c = true →
    filterSelF n c s = .ok r → SelSpec s c r := by
  intro n
  induction n with
  | zero => intro c s r _ _ h; simp [filterSelF, throw, throwThe, MonadExceptOf.throw] at h
  | succ n ih =>
    intro c s r hso hwf h
    cases c with
    | stat m =>
      rw [filterSelF] at h
      obtain ⟨es, hm, h⟩ := bind_ok h
      · have h := pure_ok h
        subst h
        rw [staticOnly_stat_iff] at hso
        rw [wf_stat_iff] at hwf
        have hall := mapM_entries_ok (g := fun e => filterSelF n e.2 (Sel.sub s e.1)) hm
        have hall' : All₂ (fun e e' => e'.1 = e.1 ∧ SelSpec (sub s e.1) e.2 e'.2) m es :=
          hall.of_mem (fun e he e' ⟨h1, h2⟩ => ⟨h1, ih e.2 _ e'.2 (staticOnlyL_entries hso e he) (wfL_entries hwf e he) h2⟩)
        obtain ⟨l1, l2, l3, l4⟩ := selSpec_list s hall'
        have hkeys : keys es = keys m := forall₂_keys (R := fun e c' => SelSpec (sub s e.1) e.2 c') hall'
        have hnd : (keys es).Nodup := hkeys ▸ wfL_nodup hwf
        refine ⟨?_, ?_, ?_, ?_⟩
        · rw [mkStatic, staticOnly_stat_iff]; exact staticOnlyL_filter _ l1
        · rw [mkStatic, wf_stat_iff]; exact wfL_filter hnd l2
        · intro is p
          rw [den_mkStatic hnd, den, den]
          rw [statics_split p]
          split
          · rename_i js x q heq
            simp only [heq, statics, l3, mem_cons_eq]
          · split <;> rfl
        · intro q
          rw [mkStatic, addrs, addrsL_filter, l4, addrs]
    | choice l =>
      simp [filterSelF, pure, Except.pure] at h
      subst h
      by_cases hc : check s = true
      · refine ⟨by simp [hc, staticOnly], by simp [hc, wf], ?_, ?_⟩
        · intro is p
          simp only [hc, if_true]
          rw [den]
          rw [statics_split p]
          split
          · rename_i js heq; simp [heq, statics, mem, subs, hc]
          · simp
        · intro q; simp only [hc, if_true, addrs, List.mem_singleton]
          constructor
          · rintro rfl; exact ⟨rfl, hc⟩
          · exact fun h => h.1
      · simp only [Bool.not_eq_true] at hc
        refine ⟨by simp [hc, empty, staticOnly, staticOnlyL], by simp [hc, empty, wf, wfL], ?_, ?_⟩
        · intro is p
          simp only [hc, Bool.false_eq_true, if_false, den_empty]
          by_cases hm : mem s (statics p) = true
          · rw [if_pos hm, den]
            have hst := statics_split p
            generalize splitIdx p = sp at hst
            obtain ⟨js, rest⟩ := sp
            cases rest with
            | nil => simp [statics] at hst; rw [hst] at hm; simp [mem, subs, hc] at hm
            | cons _ _ => rfl
          · rw [if_neg hm]
        · intro q; simp only [hc, Bool.false_eq_true, if_false, empty, addrs, addrsL, List.mem_singleton]
          constructor
          · intro h; cases h
          · rintro ⟨rfl, h2⟩; simp [mem, subs, hc] at h2
    | indexed c a => simp [staticOnly] at hso
    | switch i cs => simp [staticOnly] at hso
    | or a b => simp [staticOnly] at hso

end GenjaxVerif.Chm

namespace GenjaxVerif.Chm

/-! ### `mask(flag)` on the static fragment -/

/-- What `mask(flag)` must achieve for one map: a true flag changes no lookup, a false flag
    leaves no usable value (a traced-masked leaf stays as an invalid entry). -/
def MaskSpec (f : FlagArg) (c r : Chm) : Prop :=
  staticOnly r = true ∧ wf r = true ∧
  (f.val = true → ∀ is p, den r is p = den c is p) ∧
  (f.val = false → ∀ is p, usable (den r is p) = none)

theorem usable_leafAt_invalid {l : Leaf} (h : l.mv.valid = false) (is : List Nat) : usable (leafAt l is) = none := by
  unfold leafAt
  split
  · cases hl : l.mv with | mk v p => simp [hl] at h; subst h; simp [usable]
  · split
    · split <;> simp [usable, h]
    · rfl
  · rfl

theorem maskSpec_list (f : FlagArg) {m es : List (String × Chm)}
    (h : All₂ (fun e e' => e'.1 = e.1 ∧ MaskSpec f e.2 e'.2) m es) :
    staticOnlyL es = true ∧ (∀ e ∈ es, wf e.2 = true) ∧
    (f.val = true → ∀ x is q, denL es x is q = denL m x is q) ∧
    (f.val = false → ∀ x is q, usable (denL es x is q) = none) := by
  induction h with
  | nil => simp [staticOnlyL, denL, usable]
  | @cons e e' r r' hd _ ih =>
    obtain ⟨k, c⟩ := e
    obtain ⟨k', c'⟩ := e'
    obtain ⟨hk, hso, hwf, ht, hf⟩ := hd
    simp only at hk hso hwf ht hf
    subst hk
    obtain ⟨i1, i2, i3, i4⟩ := ih
    refine ⟨by simp [staticOnlyL, hso, i1], ?_, ?_, ?_⟩
    · intro e he
      simp at he
      rcases he with rfl | he
      · exact hwf
      · exact i2 e he
    · intro hv x is q
      simp only [denL, ht hv, i3 hv]
    · intro hv x is q
      simp only [denL]
      split
      · exact hf hv is q
      · exact i4 hv x is q

theorem filterFlag_spec : ∀ (n : Nat) (c : Chm) (f : FlagArg) (r : Chm), staticOnly c = true → wf c = true →
    filterFlagF n c f = .ok r → MaskSpec f c r := by
  intro n
  induction n with
  | zero => intro c s r _ _ h; simp [filterFlagF, throw, throwThe, MonadExceptOf.throw] at h
  | succ n ih =>
    intro c f r hso hwf h
    cases c with
    | stat m =>
      rw [filterFlagF] at h
      obtain ⟨es, hm, h⟩ := bind_ok h
      have h := pure_ok h
      subst h
      rw [staticOnly_stat_iff] at hso
      rw [wf_stat_iff] at hwf
      have hall := mapM_entries_ok (g := fun e => filterFlagF n e.2 f) hm
      have hall' : All₂ (fun e e' => e'.1 = e.1 ∧ MaskSpec f e.2 e'.2) m es :=
        hall.of_mem (fun e he e' ⟨h1, h2⟩ => ⟨h1, ih e.2 _ e'.2 (staticOnlyL_entries hso e he) (wfL_entries hwf e he) h2⟩)
      obtain ⟨l1, l2, l3, l4⟩ := maskSpec_list f hall'
      have hkeys : keys es = keys m := forall₂_keys (R := fun e c' => MaskSpec f e.2 c') hall'
      have hnd : (keys es).Nodup := hkeys ▸ wfL_nodup hwf
      refine ⟨?_, ?_, ?_, ?_⟩
      · rw [mkStatic, staticOnly_stat_iff]; exact staticOnlyL_filter _ l1
      · rw [mkStatic, wf_stat_iff]; exact wfL_filter hnd l2
      · intro hv is p
        rw [den_mkStatic hnd, den, den]
        split
        · simp only [l3 hv]
        · rfl
      · intro hv is p
        rw [den_mkStatic hnd, den]
        split
        · exact l4 hv _ _ _
        · rfl
    | choice l =>
      simp only [filterFlagF] at h
      have h := pure_ok h
      subst h
      cases l with
      | plain p =>
        cases f with
        | conc b =>
          cases b
          · refine ⟨by simp [filterLeafFlag, mkChoice, empty, staticOnly, staticOnlyL], by simp [filterLeafFlag, mkChoice, empty, wf, wfL], by simp [FlagArg.val], ?_⟩
            intro _ is q; simp [filterLeafFlag, mkChoice, usable]
          · refine ⟨by simp [filterLeafFlag, mkChoice, staticOnly], by simp [filterLeafFlag, mkChoice, wf], ?_, by simp [FlagArg.val]⟩
            intro _ is q; simp [filterLeafFlag, mkChoice]
        | dyn b =>
          refine ⟨by simp [filterLeafFlag, mkChoice, staticOnly], by simp [filterLeafFlag, mkChoice, wf], ?_, ?_⟩
          · intro hv is q
            simp [FlagArg.val] at hv; subst hv
            simp only [filterLeafFlag, mkChoice]
            rw [den, den]
            split
            · simp [leafAt, Leaf.mv, Leaf.payload]
            · rfl
          · intro hv is q
            simp [FlagArg.val] at hv; subst hv
            simp only [filterLeafFlag, mkChoice]
            rw [den]
            split
            · exact usable_leafAt_invalid rfl _
            · rfl
      | masked g p =>
        refine ⟨by simp [filterLeafFlag, staticOnly], by simp [filterLeafFlag, wf], ?_, ?_⟩
        · intro hv is q
          simp only [filterLeafFlag, hv, Bool.true_and]
        · intro hv is q
          simp only [filterLeafFlag, hv, Bool.false_and]
          rw [den]
          split
          · exact usable_leafAt_invalid rfl _
          · rfl
    | indexed c a => simp [staticOnly] at hso
    | switch i cs => simp [staticOnly] at hso
    | or a b => simp [staticOnly] at hso

end GenjaxVerif.Chm

namespace GenjaxVerif.Chm

/-! ### `|` (`Or.build`) on the static fragment -/

/-- What `a | b` must achieve: a left-biased union of the lookups. -/
def OrSpec (a b r : Chm) : Prop :=
  staticOnly r = true ∧ wf r = true ∧ ∀ is p, den r is p = orMV (den a is p) (den b is p)

theorem orMV_none_right (x : Option MV) : orMV x none = x := by cases x <;> rfl
theorem orMV_none_left (x : Option MV) : orMV none x = x := by cases x <;> rfl

theorem denL_lookup (m : List (String × Chm)) (x : String) (is : List Nat) (q : Path) :
    denL m x is q = match lookupC m x with | some c => den c is q | none => none := by
  induction m with
  | nil => simp [denL, lookupC]
  | cons e r ih =>
    obtain ⟨k, c⟩ := e
    simp only [denL, lookupC]
    split <;> simp_all

theorem lookupC_none_iff (m : List (String × Chm)) (x : String) :
    lookupC m x = none ↔ (keys m).contains x = false := by
  induction m with
  | nil => simp [lookupC, keys]
  | cons e r ih =>
    obtain ⟨k, c⟩ := e
    simp only [lookupC, keys, List.map_cons, List.contains_cons]
    by_cases hx : x = k
    · simp [hx]
    · simp [hx, keys] at ih ⊢; exact ih

theorem denL_append (a b : List (String × Chm)) (x : String) (is : List Nat) (q : Path) :
    denL (a ++ b) x is q = if (keys a).contains x = true then denL a x is q else denL b x is q := by
  induction a with
  | nil => simp [keys]
  | cons e r ih =>
    obtain ⟨k, c⟩ := e
    simp only [List.cons_append, denL, keys, List.map_cons, List.contains_cons]
    by_cases hx : x = k
    · simp [hx]
    · have hb : (x == k) = false := by simpa using hx
      simp only [hx, if_false, hb, Bool.false_or]
      exact ih

theorem denL_restKeys (m1 m2 : List (String × Chm)) (x : String) (is : List Nat) (q : Path)
    (hx : lookupC m1 x = none) : denL (restKeys m1 m2) x is q = denL m2 x is q := by
  induction m2 with
  | nil => rfl
  | cons e r ih =>
    obtain ⟨k, c⟩ := e
    unfold restKeys at ih ⊢
    simp only [List.filter]
    by_cases hk : x = k
    · have hx' : lookupC m1 k = none := hk ▸ hx
      simp [hx', denL, hk]
    · by_cases hl : (lookupC m1 k).isNone = true
      · simp [hl, denL, hk, ih]
      · simp only [Bool.not_eq_true] at hl
        simp [hl, denL, hk, ih]

theorem keys_restKeys_sub (m1 m2 : List (String × Chm)) :
    ∀ x, (keys (restKeys m1 m2)).contains x = true → (keys m2).contains x = true ∧ (keys m1).contains x = false := by
  intro x hx
  simp only [keys, restKeys, List.contains_eq_mem, List.mem_map, List.mem_filter, decide_eq_true_eq] at hx
  obtain ⟨e, ⟨hm, hn⟩, he⟩ := hx
  refine ⟨by simp only [keys, List.contains_eq_mem, List.mem_map, decide_eq_true_eq]; exact ⟨e, hm, he⟩, ?_⟩
  apply (lookupC_none_iff m1 x).1
  rw [← he]; simpa using hn

theorem nodup_restKeys (m1 m2 : List (String × Chm)) (h : (keys m2).Nodup) : (keys (restKeys m1 m2)).Nodup := by
  unfold keys restKeys at *
  exact (List.filter_sublist.map _).nodup h

theorem orLeaf_mv (x y : Leaf) : (orLeaf x y).mv = if x.mv.valid = true then x.mv else y.mv := by
  cases x with
  | plain p => simp [orLeaf, Leaf.mv]
  | masked f p =>
    cases y with
    | plain q => cases f <;> simp [orLeaf, Leaf.mv]
    | masked g q => cases f <;> simp [orLeaf, Leaf.mv]

theorem orLeaf_payload (x y : Leaf) : (orLeaf x y).payload = if x.mv.valid = true then x.payload else y.payload := by
  cases x with
  | plain p => simp [orLeaf, Leaf.mv, Leaf.payload]
  | masked f p =>
    cases y with
    | plain q => cases f <;> simp [orLeaf, Leaf.mv, Leaf.payload]
    | masked g q => cases f <;> simp [orLeaf, Leaf.mv, Leaf.payload]

/-- Element `n` of a payload read with validity `v`. -/
def elemAt (v : Bool) : Payload → Nat → Option MV
  | .arr ns, n => if h : n < ns.length then some ⟨v, .int ns[n]⟩ else none
  | .int _, _ => none

theorem leafAt_one (l : Leaf) (n : Nat) : leafAt l [n] = elemAt l.mv.valid l.payload n := by
  simp only [leafAt]
  cases l.payload <;> rfl

theorem elemAt_or (v w : Bool) (p q : Payload) (hs : p.shape = q.shape) (n : Nat) :
    elemAt (if v = true then v else w) (if v = true then p else q) n = orMV (elemAt v p n) (elemAt w q n) := by
  cases p with
  | int a =>
    cases q with
    | int b => cases v <;> simp [elemAt, orMV]
    | arr b => simp [Payload.shape] at hs
  | arr a =>
    cases q with
    | int b => simp [Payload.shape] at hs
    | arr b =>
      simp [Payload.shape] at hs
      by_cases hn : n < a.length
      · have hn' : n < b.length := hs ▸ hn
        cases v <;> simp [elemAt, orMV, hn, hn']
      · have hn' : ¬ n < b.length := hs ▸ hn
        cases v <;> simp [elemAt, orMV, hn, hn']

theorem leafAt_orLeaf (x y : Leaf) (hs : x.payload.shape = y.payload.shape) (is : List Nat) :
    leafAt (orLeaf x y) is = orMV (leafAt x is) (leafAt y is) := by
  match is with
  | [] =>
    simp only [leafAt, orLeaf_mv, orMV]
  | [n] =>
    rw [leafAt_one, leafAt_one, leafAt_one, orLeaf_payload, orLeaf_mv, ← elemAt_or _ _ _ _ hs]
    by_cases hv : x.mv.valid = true <;> simp [hv]
  | _ :: _ :: _ => simp [leafAt, orMV]

end GenjaxVerif.Chm

namespace GenjaxVerif.Chm

/-- Per-entry outcome of the first loop of `Static.merge_with`. -/
def OrEntry (m2 : List (String × Chm)) (e : String × Chm) (c' : Chm) : Prop :=
  staticOnly c' = true ∧ wf c' = true ∧ ∀ is q, den c' is q = orMV (den e.2 is q) (denL m2 e.1 is q)

theorem orSpec_list (m2 : List (String × Chm)) {m1 l1 : List (String × Chm)}
    (h : All₂ (fun e e' => e'.1 = e.1 ∧ OrEntry m2 e e'.2) m1 l1) :
    staticOnlyL l1 = true ∧ (∀ e ∈ l1, wf e.2 = true) ∧
    (∀ x is q, denL l1 x is q =
      if (keys m1).contains x = true then orMV (denL m1 x is q) (denL m2 x is q) else none) := by
  induction h with
  | nil => simp [staticOnlyL, denL, keys]
  | @cons e e' r r' hd _ ih =>
    obtain ⟨k, c⟩ := e
    obtain ⟨k', c'⟩ := e'
    obtain ⟨hk, hso, hwf, hden⟩ := hd
    simp only at hk hso hwf hden
    subst hk
    obtain ⟨i1, i2, i3⟩ := ih
    refine ⟨by simp [staticOnlyL, hso, i1], ?_, ?_⟩
    · intro e he
      simp at he
      rcases he with rfl | he
      · exact hwf
      · exact i2 e he
    · intro x is q
      simp only [denL, keys, List.map_cons, List.contains_cons]
      by_cases hx : x = k'
      · subst hx; simp [hden]
      · have hb : (x == k') = false := by simpa using hx
        simp only [hx, if_false, hb, Bool.false_or]
        exact i3 x is q

theorem lookupC_mem {m : List (String × Chm)} {x : String} {c : Chm} (h : lookupC m x = some c) : (x, c) ∈ m := by
  induction m with
  | nil => simp [lookupC] at h
  | cons e r ih =>
    obtain ⟨k, c'⟩ := e
    simp only [lookupC] at h
    split at h
    · cases h; rename_i hx; subst hx; exact List.mem_cons_self ..
    · exact List.mem_cons_of_mem _ (ih h)

theorem staticOnlyL_append {a b : List (String × Chm)} (ha : staticOnlyL a = true) (hb : staticOnlyL b = true) :
    staticOnlyL (a ++ b) = true := by
  induction a with
  | nil => simpa using hb
  | cons e r ih =>
    obtain ⟨k, c⟩ := e
    simp [staticOnlyL] at ha ⊢
    exact ⟨ha.1, ih ha.2⟩

theorem staticOnlyL_of_entries {m : List (String × Chm)} (h : ∀ e ∈ m, staticOnly e.2 = true) : staticOnlyL m = true := by
  induction m with
  | nil => rfl
  | cons e r ih =>
    obtain ⟨k, c⟩ := e
    simp [staticOnlyL]
    exact ⟨h (k, c) (List.mem_cons_self ..), ih (fun e he => h e (List.mem_cons_of_mem _ he))⟩

theorem mkOr_spec : ∀ (n : Nat) (a b r : Chm), staticOnly a = true → wf a = true → staticOnly b = true → wf b = true →
    mkOrF n a b = .ok r → OrSpec a b r := by
  intro n
  induction n with
  | zero => intro a b r _ _ _ _ h; simp [mkOrF, throw, throwThe, MonadExceptOf.throw] at h
  | succ n ih =>
    intro a b r hsa hwa hsb hwb h
    unfold mkOrF at h
    by_cases hbe : staticIsEmpty b = true
    · rw [if_pos hbe] at h
      have h := pure_ok h; subst h
      refine ⟨hsa, hwa, ?_⟩
      intro is p; rw [staticIsEmpty_eq hbe, den_empty, orMV_none_right]
    · rw [if_neg hbe] at h
      by_cases hae : staticIsEmpty a = true
      · rw [if_pos hae] at h
        have h := pure_ok h; subst h
        refine ⟨hsb, hwb, ?_⟩
        intro is p; rw [staticIsEmpty_eq hae, den_empty, orMV_none_left]
      · rw [if_neg hae] at h
        cases a with
        | stat m1 =>
          cases b with
          | stat m2 =>
            simp only at h
            obtain ⟨l1, hm, h⟩ := bind_ok h
            have h := pure_ok h; subst h
            rw [staticOnly_stat_iff] at hsa hsb
            rw [wf_stat_iff] at hwa hwb
            have hall := mapM_ok hm
            have hall' : All₂ (fun e e' => e'.1 = e.1 ∧ OrEntry m2 e e'.2) m1 l1 := by
              refine hall.of_mem ?_
              intro e he e' hee
              have hse := staticOnlyL_entries hsa e he
              have hwe := wfL_entries hwa e he
              cases hl : lookupC m2 e.1 with
              | none =>
                simp only [hl] at hee
                have hee := pure_ok hee; subst hee
                refine ⟨rfl, hse, hwe, ?_⟩
                intro is q
                rw [denL_lookup, hl, orMV_none_right]
              | some c2 =>
                simp only [hl] at hee
                obtain ⟨r', hr', hee⟩ := bind_ok hee
                have hee := pure_ok hee; subst hee
                have hc2m : ∃ e2 ∈ m2, e2.2 = c2 := ⟨_, lookupC_mem hl, rfl⟩
                obtain ⟨e2, he2, rfl⟩ := hc2m
                obtain ⟨o1, o2, o3⟩ := ih e.2 e2.2 r' hse hwe (staticOnlyL_entries hsb e2 he2) (wfL_entries hwb e2 he2) hr'
                refine ⟨rfl, o1, o2, ?_⟩
                intro is q
                simp only
                rw [o3, denL_lookup m2, hl]
            obtain ⟨q1, q2, q3⟩ := orSpec_list m2 hall'
            have hkeys : keys l1 = keys m1 := forall₂_keys (R := fun e c' => OrEntry m2 e c') hall'
            have hnd : (keys (l1 ++ restKeys m1 m2)).Nodup := by
              simp only [keys, List.map_append]
              rw [List.nodup_append]
              refine ⟨by rw [show List.map (fun x => x.fst) l1 = keys l1 from rfl, hkeys]; exact wfL_nodup hwa, nodup_restKeys m1 m2 (wfL_nodup hwb), ?_⟩
              intro x hx1 y hx2 hxy
              subst hxy
              have h1 : (keys m1).contains x = true := by rw [← hkeys]; simpa [keys] using hx1
              have h2 := (keys_restKeys_sub m1 m2 x (by simpa [keys] using hx2)).2
              rw [h1] at h2; cases h2
            have hrest_sub : ∀ e ∈ restKeys m1 m2, e ∈ m2 := fun e he => (List.mem_filter.1 he).1
            refine ⟨?_, ?_, ?_⟩
            · rw [mkStatic, staticOnly_stat_iff]
              apply staticOnlyL_filter
              exact staticOnlyL_append q1 (staticOnlyL_of_entries (fun e he => staticOnlyL_entries hsb e (hrest_sub e he)))
            · rw [mkStatic, wf_stat_iff]
              apply wfL_filter hnd
              intro e he
              rcases List.mem_append.1 he with he | he
              · exact q2 e he
              · exact wfL_entries hwb e (hrest_sub e he)
            · intro is p
              rw [den_mkStatic hnd, den, den, den]
              generalize splitIdx p = sp
              obtain ⟨js, rest⟩ := sp
              cases rest with
              | nil => simp [orMV]
              | cons c q =>
                cases c with
                | i k => simp [orMV]
                | s x =>
                  simp only
                  rw [denL_append, hkeys, q3]
                  by_cases hx : (keys m1).contains x = true
                  · rw [if_pos hx, if_pos hx]
                  · simp only [Bool.not_eq_true] at hx
                    simp only [hx, Bool.false_eq_true, if_false]
                    rw [denL_restKeys m1 m2 x _ _ ((lookupC_none_iff m1 x).2 hx), denL_not_mem hx, orMV_none_left]
          | choice y =>
            simp only [throw, throwThe, MonadExceptOf.throw] at h
            cases h
          | indexed c a => simp [staticOnly] at hsb
          | switch i cs => simp [staticOnly] at hsb
          | or a b => simp [staticOnly] at hsb
        | choice x =>
          cases b with
          | stat m2 =>
            simp only [throw, throwThe, MonadExceptOf.throw] at h
            cases h
          | choice y =>
            simp only at h
            by_cases hs : x.payload.shape = y.payload.shape
            · rw [if_pos hs] at h
              have h := pure_ok h
              have hr : r = choice (orLeaf x y) := by
                rw [← h]; cases orLeaf x y <;> rfl
              clear h
              subst hr
              refine ⟨by simp [staticOnly], by simp [wf], ?_⟩
              intro is p
              rw [den, den, den]
              generalize splitIdx p = sp
              obtain ⟨js, rest⟩ := sp
              cases rest with
              | nil => simp only; exact leafAt_orLeaf x y hs _
              | cons c q => simp [orMV]
            · rw [if_neg hs] at h
              simp only [throw, throwThe, MonadExceptOf.throw] at h
              cases h
          | indexed c a => simp [staticOnly] at hsb
          | switch i cs => simp [staticOnly] at hsb
          | or a b => simp [staticOnly] at hsb
        | indexed c a => simp [staticOnly] at hsa
        | switch i cs => simp [staticOnly] at hsa
        | or a b => simp [staticOnly] at hsa

end GenjaxVerif.Chm

namespace GenjaxVerif.Chm

/-! ### Addresses, emptiness, `get_inner_map`, `extend`, `get_selection` on the static fragment -/

mutual
theorem addrs_ne_nil : ∀ (c : Chm), staticOnly c = true → wf c = true → staticIsEmpty c = false → addrs c ≠ []
  | stat [], _, _, he => by simp [staticIsEmpty] at he
  | stat ((k, c) :: r), hso, hwf, _ => by
    rw [staticOnly, staticOnlyL] at hso
    rw [wf, wfL] at hwf
    simp only [Bool.and_eq_true, Bool.not_eq_true'] at hso hwf
    have := addrs_ne_nil c hso.1 hwf.1.1.1 hwf.1.1.2
    rw [addrs, addrsL]
    intro h
    have h' := (List.append_eq_nil_iff.1 h).1
    exact this (List.map_eq_nil_iff.1 h')
  | choice _, _, _, _ => by simp [addrs]
  | indexed _ _, hso, _, _ => by simp [staticOnly] at hso
  | switch _ _, hso, _, _ => by simp [staticOnly] at hso
  | or _ _, hso, _, _ => by simp [staticOnly] at hso
end

theorem staticIsEmpty_iff_addrs {c : Chm} (hso : staticOnly c = true) (hwf : wf c = true) :
    staticIsEmpty c = true ↔ addrs c = [] := by
  constructor
  · exact addrs_empty_of_staticIsEmpty
  · intro h
    cases he : staticIsEmpty c with
    | true => rfl
    | false => exact absurd h (addrs_ne_nil c hso hwf he)

theorem nil_not_mem_addrsL (m : List (String × Chm)) : [] ∉ addrsL m := by
  induction m with
  | nil => simp [addrsL]
  | cons e r ih => obtain ⟨k, c⟩ := e; simp [addrsL, ih]

theorem mem_addrsL_iff {m : List (String × Chm)} (hnd : (keys m).Nodup) (x : String) (q : List String) :
    (x :: q) ∈ addrsL m ↔ q ∈ addrs ((lookupC m x).getD empty) := by
  induction m with
  | nil => simp [addrsL, lookupC, empty, addrs]
  | cons e r ih =>
    obtain ⟨k, c⟩ := e
    simp [keys] at hnd
    have ihr := ih (by simpa [keys] using hnd.2)
    simp only [addrsL, List.mem_append, List.mem_map, lookupC]
    by_cases hx : x = k
    · subst hx
      simp only [if_true, Option.getD_some]
      constructor
      · rintro (⟨q', h1, h2⟩ | h)
        · cases h2; exact h1
        · rw [ihr] at h
          have : lookupC r x = none := (lookupC_none_iff r x).2 (by simp [keys]; intro c' hm; exact hnd.1 c' hm)
          rw [this] at h; simp [empty, addrs, addrsL] at h
      · intro h; exact Or.inl ⟨q, h, rfl⟩
    · simp only [hx, if_false]
      rw [← ihr]
      constructor
      · rintro (⟨q', _, h2⟩ | h)
        · cases h2; exact absurd rfl hx
        · exact h
      · exact Or.inr

theorem splitIdx_s (x : String) (p : Path) : splitIdx (.s x :: p) = ([], .s x :: p) := rfl

/-- The sub-map at a static component as a plain function (specification side). -/
def innerStatic : Chm → String → Chm
  | stat m, x => (lookupC m x).getD empty
  | _, _ => empty

theorem getInner_static_spec {k : Nat} {c r : Chm} {x : String} (hso : staticOnly c = true) (hwf : wf c = true)
    (h : getInnerF (k + 1) c (.s x) = .ok r) :
    staticOnly r = true ∧ wf r = true ∧ r = innerStatic c x ∧
    ∀ is p, den r is p = den c is (.s x :: p) := by
  cases c with
  | stat m =>
    simp only [getInnerF] at h
    have h := pure_ok h; subst h
    rw [staticOnly_stat_iff] at hso; rw [wf_stat_iff] at hwf
    cases hl : lookupC m x with
    | none =>
      refine ⟨by simp [empty, staticOnly, staticOnlyL], by simp [empty, wf, wfL], by simp [innerStatic, hl], ?_⟩
      intro is p
      rw [den, splitIdx_s]; simp only [Option.getD_none, den_empty]
      rw [denL_lookup, hl]
    | some c' =>
      have hm := lookupC_mem hl
      refine ⟨staticOnlyL_entries hso _ hm, wfL_entries hwf _ hm, by simp [innerStatic, hl], ?_⟩
      intro is p
      rw [den, splitIdx_s]; simp only [Option.getD_some, List.append_nil]
      rw [denL_lookup, hl]
  | choice l =>
    simp only [getInnerF] at h
    have h := pure_ok h; subst h
    refine ⟨by simp [empty, staticOnly, staticOnlyL], by simp [empty, wf, wfL], rfl, ?_⟩
    intro is p
    rw [den_empty, den, splitIdx_s]
  | indexed c a => simp [staticOnly] at hso
  | switch i cs => simp [staticOnly] at hso
  | or a b => simp [staticOnly] at hso

theorem den_entry_static (x : String) (c : Chm) (is : List Nat) (p : Path) :
    den (mkStatic [(x, c)]) is p =
      match splitIdx p with
      | (js, .s y :: q) => if y = x then den c (is ++ js) q else none
      | _ => none := by
  rw [den_mkStatic (by simp [keys]), den]
  generalize splitIdx p = sp
  obtain ⟨js, rest⟩ := sp
  cases rest with
  | nil => rfl
  | cons c' q => cases c' <;> simp [denL]

theorem hasValue_static {c : Chm} (hso : staticOnly c = true) :
    hasValue c = .ok (match c with | choice _ => true | _ => false) := by
  cases c with
  | stat m => simp [hasValue, getValue, bind, Except.bind, pure, Except.pure]
  | choice l => simp [hasValue, getValue, bind, Except.bind, pure, Except.pure]
  | indexed c a => simp [staticOnly] at hso
  | switch i cs => simp [staticOnly] at hso
  | or a b => simp [staticOnly] at hso

theorem selMem_spec : ∀ (q : List String) (k : Nat) (c : Chm) (b : Bool), staticOnly c = true → wf c = true →
    selMemF (k + 1) c q = .ok b → b = decide (q ∈ addrs c) := by
  intro q
  induction q with
  | nil =>
    intro k c b hso hwf h
    simp only [selMemF] at h
    by_cases he : staticIsEmpty c = true
    · rw [if_pos he] at h; have h := pure_ok h; subst h
      simp [addrs_empty_of_staticIsEmpty he]
    · rw [if_neg he, hasValue_static hso] at h
      cases c with
      | stat m => cases h; simp [addrs, nil_not_mem_addrsL]
      | choice l => cases h; simp [addrs]
      | indexed c a => simp [staticOnly] at hso
      | switch i cs => simp [staticOnly] at hso
      | or a b => simp [staticOnly] at hso
  | cons x q ih =>
    intro k c b hso hwf h
    simp only [selMemF] at h
    by_cases he : staticIsEmpty c = true
    · rw [if_pos he] at h; have h := pure_ok h; subst h
      simp [addrs_empty_of_staticIsEmpty he]
    · rw [if_neg he] at h
      obtain ⟨r, hr, h⟩ := bind_ok h
      obtain ⟨g1, g2, g3, _⟩ := getInner_static_spec hso hwf hr
      have hb := ih k r b g1 g2 h
      subst g3
      cases c with
      | stat m =>
        rw [wf_stat_iff] at hwf
        simp only [innerStatic] at hb
        rw [hb, addrs]
        simp only [mem_addrsL_iff (wfL_nodup hwf)]
        try rfl
      | choice l => simp only [innerStatic] at hb; rw [hb]; simp [addrs, empty, addrsL]
      | indexed c a => simp [staticOnly] at hso
      | switch i cs => simp [staticOnly] at hso
      | or a b => simp [staticOnly] at hso

end GenjaxVerif.Chm

namespace GenjaxVerif.Chm

/-! ### `get_inner_map` on an index component (slicing every leaf) on the static fragment -/

theorem sliceLeaf_leafAt {n : Nat} {l l' : Leaf} (h : sliceLeaf n l = .ok l') (is : List Nat) :
    leafAt l' is = leafAt l (n :: is) := by
  unfold sliceLeaf at h
  split at h
  · rename_i ns
    split at h
    · have h := pure_ok h; subst h
      match is with
      | [] => simp [leafAt, Leaf.mv, Leaf.payload, *]
      | [k] => simp [leafAt, Leaf.payload]
      | _ :: _ :: _ => simp [leafAt]
    · simp [throw, throwThe, MonadExceptOf.throw] at h
  · rename_i f ns
    split at h
    · have h := pure_ok h; subst h
      match is with
      | [] => simp [leafAt, Leaf.mv, Leaf.payload, *]
      | [k] => simp [leafAt, Leaf.payload]
      | _ :: _ :: _ => simp [leafAt]
    · simp [throw, throwThe, MonadExceptOf.throw] at h
  · simp [throw, throwThe, MonadExceptOf.throw] at h

mutual
theorem sliceAll_den (n : Nat) : ∀ (c r : Chm), staticOnly c = true → sliceAll n c = .ok r →
    ∀ is p, den r is p = den c (n :: is) p
  | stat m, r, hso, h => by
    rw [sliceAll] at h
    obtain ⟨m', hm', h⟩ := bind_ok h
    have h := pure_ok h; subst h
    rw [staticOnly] at hso
    intro is p
    rw [den, den]
    generalize splitIdx p = sp
    obtain ⟨js, rest⟩ := sp
    cases rest with
    | nil => rfl
    | cons c' q =>
      cases c' with
      | i k => rfl
      | s x => exact sliceAllL_den n m m' hso hm' x _ q
  | choice l, r, _, h => by
    rw [sliceAll] at h
    obtain ⟨l', hl', h⟩ := bind_ok h
    have h := pure_ok h; subst h
    intro is p
    rw [den, den]
    generalize splitIdx p = sp
    obtain ⟨js, rest⟩ := sp
    cases rest with
    | nil => exact sliceLeaf_leafAt hl' _
    | cons c' q => rfl
  | indexed _ _, _, hso, _ => by simp [staticOnly] at hso
  | switch _ _, _, hso, _ => by simp [staticOnly] at hso
  | or _ _, _, hso, _ => by simp [staticOnly] at hso
theorem sliceAllL_den (n : Nat) : ∀ (m m' : List (String × Chm)), staticOnlyL m = true → sliceAllL n m = .ok m' →
    ∀ x is q, denL m' x is q = denL m x (n :: is) q
  | [], m', _, h => by
    rw [sliceAllL] at h; have h := pure_ok h; subst h; intro x is q; rfl
  | (k, c) :: r, m', hso, h => by
    rw [sliceAllL] at h
    obtain ⟨c', hc', h⟩ := bind_ok h
    obtain ⟨r', hr', h⟩ := bind_ok h
    have h := pure_ok h; subst h
    rw [staticOnlyL, Bool.and_eq_true] at hso
    intro x is q
    simp only [denL]
    rw [sliceAll_den n c c' hso.1 hc' is q, sliceAllL_den n r r' hso.2 hr' x is q]
end

theorem den_idx_cons : ∀ (c : Chm), staticOnly c = true → ∀ (is : List Nat) (n : Nat) (p : Path),
    den c is (.i n :: p) = den c (is ++ [n]) p := by
  intro c hso is n p
  cases c with
  | stat m =>
    rw [den, den]
    simp only [splitIdx]
    generalize splitIdx p = sp
    obtain ⟨js, rest⟩ := sp
    cases rest with
    | nil => rfl
    | cons c' q => cases c' <;> simp
  | choice l =>
    rw [den, den]
    simp only [splitIdx]
    generalize splitIdx p = sp
    obtain ⟨js, rest⟩ := sp
    cases rest with
    | nil => simp
    | cons c' q => rfl
  | indexed _ _ => simp [staticOnly] at hso
  | switch _ _ => simp [staticOnly] at hso
  | or _ _ => simp [staticOnly] at hso

end GenjaxVerif.Chm
