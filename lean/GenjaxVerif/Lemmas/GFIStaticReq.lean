import GenjaxVerif.Lemmas.GFIUpdate
import GenjaxVerif.Lemmas.CMap
import GenjaxVerif.Model.Derived
/-! `StaticRequest`: it is `Update` / `Regenerate` when its entries are the pieces of one constraint /
    selection, its weight is new score − old score, and its backward request pairs every visited
    address with that call's own backward request. -/
namespace GenjaxVerif.GFI
open GenjaxVerif

theorem Sel.none_subs (a : List String) : Sel.none.subs a = Sel.none := by
  induction a with
  | nil => rfl
  | cons x xs ih => simpa [Sel.subs, Sel.sub] using ih

theorem bindOld_regen (olds : List (List String × Trace)) (addr : List String) :
    bindOld .regen olds addr = bindOld .upd olds addr := rfl

/-- With the entry at every address cut out of one constraint and one selection, the request's pass
    is the `Update` (resp. `Regenerate`) handler's pass. -/
theorem reqBody_eq_runBody (ds : DistSem) (m : Mode) (hm : m = .upd ∨ m = .regen) (i : In)
    (olds : List (List String × Trace)) :
    ∀ (b : Body) (env : List Val) (st : SState),
      reqBody ds (fun a => ⟨m, i.c.subStatic a, i.sel.subs a⟩) b i olds env st = runBody ds m b i olds env st
  | .ret e, env, st => by simp [reqBody, runBody]
  | .bind addr p aes rest, env, st => by
    simp only [reqBody, runBody]
    cases hev : Expr.evalL env aes with
    | error e => rfl
    | ok a =>
      simp only [bind, Except.bind]
      unfold bindIn
      by_cases hre : (lookupSub st.subs addr).isSome = true
      · simp [hre]
      · have hassess : (m == Mode.assess) = false := by rcases hm with rfl | rfl <;> rfl
        have hold : bindOld m olds addr = bindOld .upd olds addr := by rcases hm with rfl | rfl <;> rfl
        simp only [hre, hassess, hold, Bool.false_and, Bool.false_eq_true, if_false]
        cases hbo : bindOld .upd olds addr with
        | error e => rfl
        | ok o =>
          simp only
          cases hr : run ds m p { i with c := i.c.subStatic addr, sel := i.sel.subs addr, old := o,
                                         key := i.key.child st.counter, args := .tup a } with
          | error e => rfl
          | ok r => exact reqBody_eq_runBody ds m hm i olds rest _ _

theorem staticOlds_regen (o : Option Trace) : staticOlds .regen o = staticOlds .upd o := by
  cases o with
  | none => rfl
  | some t => cases t <;> rfl

/-- The calls one pass of the request handler made, in order: (address, result). -/
def CallsOf (st st' : SState) (calls : List (List String × Res)) : Prop :=
  st'.subs = st.subs ++ calls.map (fun c => (c.1, c.2.tr)) ∧
  st'.w = st.w + (calls.map (·.2.w)).sum ∧
  st'.bwd = st.bwd ++ (calls.map (fun c => CMap.pre (c.1.map Comp.s) c.2.bwd)).flatten

def Body.addrs : Body → List (List String)
  | .ret _ => []
  | .bind a _ _ rest => a :: Body.addrs rest

/-- Every `trace` statement of the body is one call, edited by the entry at its own address, and the
    handler's trace / weight / backward request are those calls' traces / weights / backward requests
    in the same order and under the same addresses. -/
theorem reqBody_calls (ds : DistSem) (req : List String → SubReq) :
    ∀ (b : Body) (i : In) (olds env) (st st' : SState) (v : Val),
      reqBody ds req b i olds env st = .ok (st', v) →
      ∃ calls : List (List String × Res), calls.map (·.1) = Body.addrs b ∧ CallsOf st st' calls
  | .ret e, i, olds, env, st, st', v, h => by
    simp only [reqBody, bind_ok, pure_ok] at h
    obtain ⟨_, _, h2⟩ := h
    simp at h2; obtain ⟨rfl, _⟩ := h2
    exact ⟨[], rfl, by simp [CallsOf]⟩
  | .bind addr p aes rest, i, olds, env, st, st', v, h => by
    simp only [reqBody, bind_ok] at h
    obtain ⟨a, _, h2⟩ := h
    split at h2
    · simp at h2
    · simp only [bind_ok] at h2
      obtain ⟨o, _, r, hr, h4⟩ := h2
      obtain ⟨calls, hc, hs, hw, hb⟩ := reqBody_calls ds req rest i olds _ _ st' v h4
      refine ⟨(addr, r) :: calls, by simp [Body.addrs, hc], ?_, ?_, ?_⟩
      · simpa [bindOut] using hs
      · simp only [bindOut] at hw; simp only [List.map_cons, List.sum_cons]; omega
      · simpa [bindOut] using hb

/-- The weight of a `StaticRequest` is new score − old score (exact densities; no switch with a
    changed index inside, as for `Update`). -/
theorem reqBody_w (ds : DistSem) (req : List String → SubReq) (hmode : ∀ a, (req a).mode = .upd ∨ (req a).mode = .regen) :
    ∀ (b : Body) (i : In) (olds env) (st st' : SState) (v : Val)
    (pre suf : List (List String × Trace)),
    reqBody ds req b i olds env st = .ok (st', v) → olds = pre ++ suf → ShapeBody b suf →
    st.subs.map (·.1) = pre.map (·.1) → st.w = Trace.scoreAL st.subs - Trace.scoreAL pre →
    SafeBody i.changed b →
    st'.w = Trace.scoreAL st'.subs - Trace.scoreAL olds
  | .ret e, i, olds, env, st, st', v, pre, suf, h, ho, hs, _, hw, _ => by
    simp only [reqBody, bind_ok, pure_ok] at h
    obtain ⟨_, _, h2⟩ := h
    simp at h2; obtain ⟨rfl, _⟩ := h2
    simp only [ShapeBody] at hs
    subst hs; simpa [ho] using hw
  | .bind addr p aes rest, i, olds, env, st, st', v, pre, suf, h, ho, hs, hk, hw, hsafe => by
    simp only [reqBody, bind_ok] at h
    obtain ⟨a, _, h2⟩ := h
    split at h2
    · simp at h2
    · rename_i hn
      have hn : lookupSub st.subs addr = none := by
        cases hl : lookupSub st.subs addr with
        | none => rfl
        | some t => simp [hl] at hn
      simp only [bind_ok] at h2
      obtain ⟨o, ho', r, hr, h4⟩ := h2
      cases suf with
      | nil => simp [ShapeBody] at hs
      | cons x suf' =>
        obtain ⟨xa, t⟩ := x
        simp only [ShapeBody] at hs
        obtain ⟨rfl, hst, hrest⟩ := hs
        have hl' : lookupSub olds xa = some t := by
          rw [ho]; exact lookupSub_append_hit (lookupSub_none_of_keys hk hn)
        simp only [bindOld, hl'] at ho'
        simp at ho'; subst ho'
        have hrw : r.w = r.tr.score - t.score := by
          rcases hmode xa with hm | hm
          · rw [hm] at hr; exact upd_w ds p _ r t hr rfl hst hsafe.1
          · rw [hm] at hr; exact regen_w ds p _ r t hr rfl hst
        refine reqBody_w ds req hmode rest i olds _ _ st' v (pre ++ [(xa, t)]) suf' h4 (by simp [ho]) hrest
          (by simp [bindOut, hk]) ?_ hsafe.2
        simp only [bindOut, scoreAL_append, Trace.scoreAL, hw, hrw]
        omega

end GenjaxVerif.GFI

namespace GenjaxVerif.GFI
open GenjaxVerif

/-- The request handler reads only the key and the change flag of its own input. -/
theorem reqBody_congr (ds : DistSem) (req : List String → SubReq) (i j : In) (hk : i.key = j.key)
    (hc : i.changed = j.changed) (olds : List (List String × Trace)) :
    ∀ (b : Body) (env : List Val) (st : SState), reqBody ds req b i olds env st = reqBody ds req b j olds env st
  | .ret e, env, st => by simp [reqBody]
  | .bind addr p aes rest, env, st => by
    simp only [reqBody, hk, hc]
    cases Expr.evalL env aes with
    | error e => rfl
    | ok a =>
      simp only [bind, Except.bind]
      split
      · rfl
      · cases bindOld .upd olds addr with
        | error e => rfl
        | ok o =>
          simp only
          split
          · rfl
          · exact reqBody_congr ds req i j hk hc olds rest _ _

end GenjaxVerif.GFI
