import GenjaxVerif.Lemmas.GFIReplay
import GenjaxVerif.Lemmas.GFIUpdate
/-! An `Update` with the empty constraint and the trace's own arguments is the identity with weight 0
    (no switch re-simulation inside): `EmptyRequest`'s shortcut and its `Update(empty)` reading coincide,
    and so do the NoChange / UnknownChange taggings of unchanged arguments. -/
namespace GenjaxVerif.GFI
open GenjaxVerif CMap

/-- The result of an edit that changes nothing. -/
def ided (t : Trace) : Res := ⟨t, 0, [], true⟩

theorem sumW_ided (ts : List Trace) : sumW (ts.map ided) = 0 := by
  induction ts with
  | nil => rfl
  | cons t ts ih => simp [sumW_cons, ided, ih] at *

theorem bwdFrom_ided (ts : List Trace) (k : Nat) : bwdFrom k (ts.map ided) = [] := by
  induction ts generalizing k with
  | nil => rfl
  | cons t ts ih => simp [bwdFrom, ided, ih]

theorem bwdIdx_ided (ts : List Trace) : bwdIdx (ts.map ided) = [] := bwdFrom_ided ts 0

theorem allBwdOk_ided (ts : List Trace) : allBwdOk (ts.map ided) = true := by
  simp [allBwdOk, ided]

theorem map_tr_ided (ts : List Trace) : (ts.map ided).map (·.tr) = ts := by
  induction ts with
  | nil => rfl
  | cons t ts ih => simp only [List.map_cons, ih]; rfl

theorem map_ret_ided (ts : List Trace) : (ts.map ided).map (·.tr.ret) = ts.map (·.ret) := by
  induction ts with
  | nil => rfl
  | cons t ts ih => simp only [List.map_cons, ih]; rfl

theorem mapM_secondOfRet_ided (rs : List Res) :
    (rs.map (fun r => ided r.tr)).mapM secondOfRet = rs.mapM secondOfRet := by
  induction rs with
  | nil => rfl
  | cons r rs ih =>
    simp only [List.map_cons, List.mapM_cons, ih]
    rfl

theorem leaf_id {ds m d i r} (h : leaf ds m d i = .ok r) (j : In)
    (hc : j.c = []) (ha : j.args = i.args) (ho : j.old = some r.tr) : leaf ds .upd d j = .ok (ided r.tr) := by
  obtain ⟨v, hv⟩ := leaf_form h
  unfold leaf
  simp [hc, hv, CMap.leaf, ha, ho, oldOf, ided, bind, Except.bind, pure, Except.pure]

@[simp] theorem sub_nil' (k : Comp) : CMap.sub ([] : CMap) k = [] := rfl

mutual
theorem upd_id (ds : DistSem) : ∀ (m : Mode) (p : Prog) (i : In) (r : Res), run ds m p i = .ok r →
    ∀ j : In, j.c = [] → j.args = i.args → j.old = some r.tr → Safe j.changed p →
    run ds .upd p j = .ok (ided r.tr)
  | m, .dist d, i, r, h, j, hc, ha, ho, _ => by
    simp only [run] at h ⊢; exact leaf_id h j hc ha ho
  | m, .static b, i, r, h, j, hc, ha, ho, hs => by
    simp only [run, staticRun, bind_ok, pure_ok] at h
    obtain ⟨env, henv, olds, _, ⟨st, v⟩, h3, rfl⟩ := h
    simp only [Safe] at hs
    have hb := upd_id_body ds m b i olds env {} st v h3 j hc hs {} rfl
    obtain ⟨sta, hb1, hb2, hb3, hb4, hb5⟩ := hb
    simp only [run, staticRun, ha, henv, ho, staticOlds, bind, Except.bind, hb1, pure, Except.pure, ided,
      hb2, hb3, hb4, hb5]
  | m, .vmap p axes, i, r, h, j, hc, ha, ho, hs => by
    simp only [run, vmapRun, bind_ok, pure_ok] at h
    obtain ⟨as, has, n, hn, _, _, rs, h3, rfl⟩ := h
    simp only [Safe] at hs
    have hl := vmapLoop_length h3
    have hloop := vmapLoop_replay (g := fun k => do run ds .upd p (← vmapElem axes as j k))
      (T := fun r => ided r.tr) h3 (fun q hq hf => by
        simp only [bind_ok, Nat.zero_add] at hf ⊢
        obtain ⟨i', hi', hr⟩ := hf
        simp only [vmapElem, bind_ok, pure_ok] at hi'
        obtain ⟨ea, hea, o, _, rfl⟩ := hi'
        refine ⟨{ j with c := j.c.sub (.i q), old := some rs[q].tr, key := j.key.child q, args := .tup ea }, ?_, ?_⟩
        · simp [vmapElem, hea, ho, vecRes, nthOld, bind, Except.bind, pure, Except.pure, hq]
        · exact upd_id ds m p _ rs[q] hr _ (by simp [hc]) rfl rfl hs)
    have hm : List.map (fun r => ided r.tr) rs = (rs.map (·.tr)).map ided := by simp
    simp only [run, vmapRun, bind_ok, pure_ok]
    refine ⟨as, by simpa [vmapArgs, ha] using (vmapArgs_ok has).1, n, hn, (),
      by simp [checkOldLen, ho, vecRes, hl], _, hloop, ?_⟩
    rw [hm]
    simp only [vecRes, sumW_ided, bwdIdx_ided, allBwdOk_ided, map_tr_ided, map_ret_ided]
    simp [ided, ha]
  | m, .scan p len, i, r, h, j, hc, ha, ho, hs => by
    simp only [run, scanRun, bind_ok, pure_ok] at h
    obtain ⟨⟨carry, xs⟩, hsa, _, _, ⟨rs, fin⟩, h3, ys, hys, rfl⟩ := h
    simp only [Safe] at hs
    dsimp only at h3
    have hl := (scanLoop_get h3).1
    have hloop := scanLoop_replay (g := fun k key carry x => do run ds .upd p (← scanElem .upd j k key carry x))
      (T := fun r => ided r.tr) (fun _ => rfl) (key' := j.key) h3 (fun q hq key1 c x hf key2 => by
        simp only [bind_ok, Nat.zero_add] at hf ⊢
        obtain ⟨i', hi', hr⟩ := hf
        simp only [scanElem, bind_ok, pure_ok] at hi'
        obtain ⟨o, _, rfl⟩ := hi'
        refine ⟨{ j with c := j.c.sub (.i q), old := some rs[q].tr, key := key2, args := .tup [c, x],
                         changed := j.changed || Mode.upd == Mode.upd }, ?_, ?_⟩
        · simp [scanElem, ho, vecRes, nthOld, bind, Except.bind, pure, Except.pure, hq]
        · exact upd_id ds m p _ rs[q] hr _ (by simp [hc]) rfl rfl (by simpa using hs))
    have hys' : (rs.map (fun r => ided r.tr)).mapM secondOfRet = .ok ys := by
      rw [← hys]; exact mapM_secondOfRet_ided rs
    have hm : List.map (fun r => ided r.tr) rs = (rs.map (·.tr)).map ided := by simp
    simp only [run, scanRun, bind_ok, pure_ok]
    refine ⟨(carry, xs), by rw [ha]; exact hsa, (), by simp [checkOldLen, ho, vecRes, hl], (_, fin), hloop, ys, hys', ?_⟩
    rw [hm]
    simp only [vecRes, sumW_ided, bwdIdx_ided, allBwdOk_ided, map_tr_ided, map_ret_ided]
    simp [ided, ha]
  | m, .switch ps, i, r, h, j, hc, ha, ho, hs => by
    simp only [run] at h
    obtain ⟨idx, ba, m', i', r', hsa, hf, hia, htr⟩ := switchRun_form h
    simp only [Safe] at hs
    obtain ⟨hch, hsl⟩ := hs
    rw [htr] at ho ⊢
    have := upd_id_nth ds m' ps idx i' r' hf { j with old := some r'.tr, args := ba } hc (by simp [hia]) rfl
      (by simpa [hch] using hsl)
    simp only [hch] at this
    simp only [run, switchRun, ha, hsa, ho, hch, bind, Except.bind, pure, Except.pure, ided]
    simp [this, ided]
  | m, .mask p, i, r, h, j, hc, ha, ho, hs => by
    simp only [run] at h
    obtain ⟨check, iargs, m', i', r', hma, hf, hia, htr⟩ := maskRun_form h
    simp only [Safe] at hs
    rw [htr] at ho ⊢
    have h1 := upd_id ds m' p i' r' hf { j with old := some r'.tr, args := .tup iargs } hc (by simp [hia]) rfl hs
    simp only [run, maskRun, ha, hma, ho, bind, Except.bind, h1, pure, Except.pure, ided]
    cases check <;> simp [CMap.maskAll]
  | m, .dimap pre p post, i, r, h, j, hc, ha, ho, hs => by
    simp only [run, dimapRun, bind_ok, pure_ok] at h
    obtain ⟨as, has, ia, hia, o, _, r', h4, rv, hrv, rfl⟩ := h
    simp only [Safe] at hs
    have h1 := upd_id ds m p _ r' h4 { j with old := some r'.tr, args := .tup ia } hc rfl rfl hs
    simp only [run, dimapRun, ha, has, hia, ho, dimapOld, bind, Except.bind, h1, pure, Except.pure, ided, hrv]

theorem upd_id_nth (ds : DistSem) : ∀ (m : Mode) (ps : List Prog) (k : Nat) (i : In) (r : Res),
    runNth ds m ps k i = .ok r →
    ∀ j : In, j.c = [] → j.args = i.args → j.old = some r.tr → SafeL j.changed ps →
    runNth ds .upd ps k j = .ok (ided r.tr)
  | _, [], _, _, _, h, _, _, _, _, _ => by simp [runNth] at h
  | m, p :: _, 0, i, r, h, j, hc, ha, ho, hs => by
    simp only [runNth] at h ⊢; exact upd_id ds m p i r h j hc ha ho hs.1
  | m, _ :: ps, k + 1, i, r, h, j, hc, ha, ho, hs => by
    simp only [runNth] at h ⊢; exact upd_id_nth ds m ps k i r h j hc ha ho hs.2

/-- The update handler, fed the final subtraces as previous trace and no constraint, records the same
    subtraces with weight 0. -/
theorem upd_id_body (ds : DistSem) : ∀ (m : Mode) (b : Body) (i : In) (olds env) (st st' : SState) (v : Val),
    runBody ds m b i olds env st = .ok (st', v) →
    ∀ j : In, j.c = [] → SafeBody j.changed b → ∀ (sta : SState), sta.subs = st.subs →
    ∃ sta', runBody ds .upd b j st'.subs env sta = .ok (sta', v) ∧ sta'.subs = st'.subs ∧
      sta'.w = sta.w ∧ sta'.bwd = sta.bwd ∧ sta'.bwdOk = sta.bwdOk
  | m, .ret e, i, olds, env, st, st', v, h, j, _, _, sta, hs => by
    simp only [runBody, bind_ok, pure_ok] at h
    obtain ⟨v', hv, h2⟩ := h
    simp at h2; obtain ⟨rfl, rfl⟩ := h2
    exact ⟨sta, by simp [runBody, hv, bind, Except.bind, pure, Except.pure], hs, rfl, rfl, rfl⟩
  | m, .bind addr p aes rest, i, olds, env, st, st', v, h, j, hc, hsafe, sta, hs => by
    simp only [runBody, bind_ok] at h
    obtain ⟨a, ha, i', hi', r, h3, h4⟩ := h
    obtain ⟨hnone, hargs⟩ := bindIn_ok_any hi'
    obtain ⟨suf, hsuf, _⟩ := run_shape_body ds m rest i olds _ _ st' v h4
    have hlook : lookupSub st'.subs addr = some r.tr := by
      rw [hsuf]
      simp only [bindOut, List.append_assoc, List.singleton_append]
      exact lookupSub_append_hit hnone
    have hbi : bindIn .upd j st'.subs sta addr a =
        .ok { j with c := [], sel := j.sel.subs addr, old := some r.tr,
                      key := j.key.child sta.counter, args := .tup a } := by
      simp [bindIn, hs, hnone, hc, bindOld, hlook]
    have hr := upd_id ds m p i' r h3
      { j with c := [], sel := j.sel.subs addr, old := some r.tr,
               key := j.key.child sta.counter, args := .tup a } rfl (by simp [hargs]) rfl hsafe.1
    have ih := upd_id_body ds m rest i olds _ _ st' v h4 j hc hsafe.2
      (bindOut sta addr (ided r.tr)) (by simp [bindOut, hs, ided])
    obtain ⟨sta', e1, e2, e3, e4, e5⟩ := ih
    refine ⟨sta', ?_, e2, ?_, ?_, ?_⟩
    · simp only [runBody, ha, hbi, bind, Except.bind, hr]
      simpa [ided] using e1
    · rw [e3]; simp [bindOut, ided]
    · rw [e4]; simp [bindOut, ided]
    · rw [e5]; simp [bindOut, ided]
end

end GenjaxVerif.GFI
