import GenjaxVerif.Model.TimeTravel
import GenjaxVerif.Lemmas.IR
/-!
  Lemmas for the time-travel model (C31): the CPS recorder (`ttCode` / `ttStack` / `recordLoop`)
  against the direct-style instrumented evaluator (`logCode` / `logStack`).
-/
namespace GenjaxVerif.TT
open GenjaxVerif.IR

/-! ## The hypothesis on `sem`: binding a record equation runs its staged callable -/

/-- `bind` of every `record_p` equation of the program (`initial_style_bind`'s `_impl`:
    `eval_jaxpr` of the staged callable on (hoisted constants, arguments)) is ordinary
    evaluation of the recorded body, and the primitive has `multiple_results`. -/
def RecSem (sem : Sem) : Code → Prop
  | .nil => True
  | .plain _ rest => RecSem sem rest
  | .recd q _ nc cv iv body ov rest =>
    q.multi = true ∧
    (∀ vs, sem q.prim q.params vs =
      (runStack sem (vs.drop nc) [.call ⟨vs.take nc, cv, iv, body, ov⟩]).map PrimOut.many) ∧
    RecSem sem body ∧ RecSem sem rest

def RecSemS (sem : Sem) : List Seg → Prop
  | [] => True
  | s :: ss => RecSem sem s.code ∧ RecSemS sem ss

/-! ## Monad plumbing -/

theorem bind_ok' {α β} (a : α) (f : α → Except Err β) : (Except.ok a >>= f) = f a := rfl
theorem bind_err' {α β} (x : Err) (f : α → Except Err β) : (Except.error x >>= f) = .error x := rfl

theorem map_bind' {α β γ} (x : Except Err α) (f : α → Except Err β) (g : β → γ) :
    (x >>= f).map g = x >>= fun a => (f a).map g := by
  cases x <;> rfl

theorem bind_pure_pair {α β} (x : Except Err (α × List β)) :
    (x >>= fun p => (pure (p.1, [] ++ p.2) : Except Err (α × List β))) = x := by
  cases x with
  | error e => rfl
  | ok p => cases p; rfl

/-! ## Plain call = reference evaluator -/

theorem runStack_call (sem : Sem) (f : Fn) (args : List Val) :
    runStack sem args [.call f] = evalPlain sem f.jaxpr f.cs args := by
  have h := evalStateful_eq_plain_override sem Handler.noop f.jaxpr f.cs args
  rw [Handler.override_of_noHandle sem Handler.noop (fun _ => rfl)] at h
  rw [← h]
  simp only [runStack, Seg.enter, Seg.code, Seg.ret, evalStateful, Fn.jaxpr, Jaxpr.constvars, Jaxpr.invars,
    Jaxpr.eqns, Jaxpr.outvars, bind_assoc]
  cases Env.writeMany ([] : Env Val) (f.cv.map Binder.var) f.cs with
  | error x => rfl
  | ok e =>
    simp only [bind_ok']
    cases e.writeMany (f.iv.map Binder.var) args with
    | error x => rfl
    | ok e1 =>
      simp only [bind_ok']
      cases loopStateful sem Handler.noop e1 f.body.eqns with
      | error x => rfl
      | ok e2 =>
        simp only [bind_ok']
        cases e2.readAll id f.ov <;> rfl

/-! ## Rebind-mode evaluation is the value part of the instrumented evaluation -/

theorem loop_cons (sem : Sem) (e : Env Val) (q : Eqn) (qs : List Eqn) :
    loopStateful sem Handler.noop e (q :: qs) =
      stepStateful sem Handler.noop e q >>= fun e' => loopStateful sem Handler.noop e' qs := rfl

theorem step_recd (sem : Sem) (e : Env Val) (q : Eqn) (hm : q.multi = true) :
    stepStateful sem Handler.noop e q =
      e.readAll id q.ins >>= fun vs => sem q.prim q.params vs >>= fun out =>
        wrapOuts true out >>= fun outvals => e.writeMany q.outs outvals := by
  simp [stepStateful, Handler.noop, hm]

theorem log_fst_code (sem : Sem) (c : Code) : ∀ (e : Env Val), RecSem sem c →
    (logCode sem e c).map Prod.fst = loopStateful sem Handler.noop e c.eqns := by
  induction c with
  | nil => intro e _; rfl
  | plain q rest ih =>
    intro e h
    simp only [logCode, Code.eqns, loop_cons, map_bind']
    cases stepStateful sem Handler.noop e q with
    | error x => rfl
    | ok e1 => exact ih e1 h
  | recd q tag nc cv iv body ov rest ihb ihr =>
    intro e h
    obtain ⟨hm, hs, hb, hr⟩ := h
    simp only [logCode, Code.eqns, loop_cons, step_recd sem e q hm, map_bind', bind_assoc]
    cases e.readAll id q.ins with
    | error x => rfl
    | ok vs =>
      simp only [bind_ok', hs vs, runStack, Seg.enter, Seg.code, Seg.ret, bind_assoc]
      cases Env.writeMany ([] : Env Val) (cv.map Binder.var) (vs.take nc) with
      | error x => rfl
      | ok e0 =>
        simp only [bind_ok']
        cases e0.writeMany (iv.map Binder.var) (vs.drop nc) with
        | error x => rfl
        | ok e1 =>
          simp only [bind_ok']
          have hb' := ihb e1 hb
          cases hl : logCode sem e1 body with
          | error x =>
            rw [hl] at hb'
            simp only [Except.map] at hb'
            rw [← hb']; rfl
          | ok p =>
            obtain ⟨eb', sub⟩ := p
            rw [hl] at hb'
            simp only [Except.map] at hb'
            rw [← hb']
            simp only [bind_ok']
            cases eb'.readAll id ov with
            | error x => rfl
            | ok r =>
              simp only [bind_ok', Except.map, wrapOuts, if_true]
              cases e.writeMany q.outs r with
              | error x => rfl
              | ok e' =>
                simp only [bind_ok']
                have hr' := ihr e' hr
                cases hl2 : logCode sem e' rest with
                | error x => rw [hl2] at hr'; simp only [Except.map] at hr'; rw [← hr']; rfl
                | ok p2 =>
                  obtain ⟨e'', later⟩ := p2
                  rw [hl2] at hr'; simp only [Except.map] at hr'; rw [← hr']; rfl

theorem log_fst_stack (sem : Sem) : ∀ (segs : List Seg) (vs : List Val), RecSemS sem segs →
    runStack sem vs segs = (logStack sem vs segs).map Prod.fst
  | [], vs, _ => rfl
  | s :: ss, vs, h => by
    obtain ⟨hc, hss⟩ := h
    simp only [runStack, logStack, map_bind', bind_assoc]
    cases s.enter vs with
    | error x => rfl
    | ok e =>
      simp only [bind_ok']
      have h1 := log_fst_code sem s.code e hc
      cases hl : logCode sem e s.code with
      | error x => rw [hl] at h1; simp only [Except.map] at h1; rw [← h1]; rfl
      | ok p =>
        obtain ⟨e', l1⟩ := p
        rw [hl] at h1; simp only [Except.map] at h1; rw [← h1]
        simp only [bind_ok']
        cases e'.readAll id s.ret with
        | error x => rfl
        | ok vs' =>
          simp only [bind_ok']
          rw [log_fst_stack sem ss vs' hss]
          cases logStack sem vs' ss with
          | error x => rfl
          | ok p2 => cases p2; rfl

/-! ## The hybrid interpreter finds the first call of the log -/

/-- The rest of the instrumented evaluation from inside a segment. -/
def whole (sem : Sem) (e : Env Val) (c : Code) (ret : List Atom) (stack : List Seg) :
    Except Err (List Val × List Entry) :=
  logCode sem e c >>= fun p => e'readAll p.1 ret >>= fun vs' => logStack sem vs' stack >>= fun r =>
    pure (r.1, p.2 ++ r.2)
where e'readAll (e' : Env Val) (ret : List Atom) := e'.readAll id ret

/-- The rest of `ttStack` from inside a segment. -/
def ttRest (sem : Sem) (e : Env Val) (c : Code) (ret : List Atom) (stack : List Seg) :
    Except Err (List Val × Option (Option String × Frame)) :=
  ttCode sem ret stack e c >>= fun o =>
    match o with
    | .hit final tag fr => pure (final, some (tag, fr))
    | .done e' => e'.readAll id ret >>= fun vs' => ttStack sem vs' stack

theorem logStack_cons (sem : Sem) (s : Seg) (ss : List Seg) (vs : List Val) :
    logStack sem vs (s :: ss) = s.enter vs >>= fun e => whole sem e s.code s.ret ss := by
  simp only [logStack, whole, whole.e'readAll, bind_assoc]

theorem ttStack_cons (sem : Sem) (s : Seg) (ss : List Seg) (vs : List Val) :
    ttStack sem vs (s :: ss) = s.enter vs >>= fun e => ttRest sem e s.code s.ret ss := by
  simp only [ttStack, ttRest]
  cases s.enter vs with
  | error x => rfl
  | ok e =>
    simp only [bind_ok']
    cases ttCode sem s.ret ss e s.code with
    | error x => rfl
    | ok o => cases o <;> rfl

/-- How one `time_travel` call relates to the instrumented evaluation of the same
    continuation: same error; no call logged ⇒ the final value and `None`; otherwise the final
    value and a frame for the FIRST logged call, whose continuation logs the remaining calls. -/
def Good (sem : Sem) (spec : Except Err (List Val × List Entry))
    (impl : Except Err (List Val × Option (Option String × Frame))) (n : Nat) : Prop :=
  match spec with
  | .error x => impl = .error x
  | .ok (fin, []) => impl = .ok (fin, none)
  | .ok (fin, en :: log) =>
    ∃ fr : Frame, impl = .ok (fin, some (en.tag, fr)) ∧ fr.args = en.args ∧ fr.ret = en.ret ∧
      RecSemS sem fr.cont ∧ nrecS fr.cont + 1 = n ∧ logStack sem fr.args fr.cont = .ok (fin, log)

theorem good_code (sem : Sem) (ret : List Atom) (stack : List Seg) (hst : RecSemS sem stack)
    (ihs : ∀ vs, Good sem (logStack sem vs stack) (ttStack sem vs stack) (nrecS stack)) (c : Code) :
    ∀ (e : Env Val), RecSem sem c →
      Good sem (whole sem e c ret stack) (ttRest sem e c ret stack) (c.nrec + nrecS stack) := by
  induction c with
  | nil =>
    intro e _
    simp only [whole, whole.e'readAll, ttRest, logCode, ttCode, bind_ok', Code.nrec, Nat.zero_add]
    cases e.readAll id ret with
    | error x => simp [Good, bind_err']
    | ok vs' =>
      simp only [bind_ok']
      have h := ihs vs'
      have hp : (logStack sem vs' stack >>= fun r => (pure (r.1, [] ++ r.2) : Except Err (List Val × List Entry)))
          = logStack sem vs' stack := bind_pure_pair _
      rw [hp]; exact h
  | plain q rest ih =>
    intro e h
    simp only [whole, ttRest, logCode, ttCode, bind_assoc, Code.nrec]
    cases stepStateful sem Handler.noop e q with
    | error x => simp [Good, bind_err']
    | ok e1 =>
      simp only [bind_ok']
      have := ih e1 h
      simpa only [whole, ttRest, bind_assoc] using this
  | recd q tag nc cv iv body ov rest _ _ =>
    intro e h
    obtain ⟨hm, hs, hb, hr⟩ := h
    simp only [whole, whole.e'readAll, ttRest, logCode, ttCode, bind_assoc, Code.nrec]
    cases e.readAll id q.ins with
    | error x => simp [Good, bind_err']
    | ok vs =>
      simp only [bind_ok']
      -- abbreviations
      generalize hf : (⟨vs.take nc, cv, iv, body, ov⟩ : Fn) = f
      have hk : RecSemS sem (Seg.kont e q.outs rest ret :: stack) := ⟨hr, hst⟩
      have hcall : RecSemS sem (Seg.call f :: Seg.kont e q.outs rest ret :: stack) := by
        subst hf; exact ⟨hb, hk⟩
      have hfb : f.body = body := by subst hf; rfl
      have hfo : f.ov = ov := by subst hf; rfl
      have hent : (Seg.call f).enter (vs.drop nc) =
          (Env.writeMany ([] : Env Val) (cv.map Binder.var) (vs.take nc) >>= fun e0 =>
            e0.writeMany (iv.map Binder.var) (vs.drop nc)) := by subst hf; rfl
      -- the two rebind-mode runs, through the instrumented evaluation
      rw [log_fst_stack sem [Seg.call f] (vs.drop nc) ⟨hcall.1, trivial⟩,
        log_fst_stack sem (Seg.call f :: Seg.kont e q.outs rest ret :: stack) (vs.drop nc) hcall]
      simp only [logStack_cons, hent, whole, whole.e'readAll, Seg.code, Seg.ret, hfb, hfo, bind_assoc, map_bind']
      cases he0 : Env.writeMany ([] : Env Val) (cv.map Binder.var) (vs.take nc) with
      | error x => simp [Good, bind_err']
      | ok e0 =>
        simp only [bind_ok']
        cases he1 : e0.writeMany (iv.map Binder.var) (vs.drop nc) with
        | error x => simp [Good, bind_err']
        | ok e1 =>
          simp only [bind_ok']
          cases hlb : logCode sem e1 body with
          | error x => simp [Good, bind_err']
          | ok p =>
            obtain ⟨eb', sub⟩ := p
            simp only [bind_ok']
            cases hrd : eb'.readAll id ov with
            | error x => simp [Good, bind_err']
            | ok r =>
              simp only [bind_ok', logStack, Seg.enter, Seg.code, Seg.ret, bind_assoc]
              cases hw : e.writeMany q.outs r with
              | error x => simp [Good, bind_err', bind_ok', Except.map, pure, Except.pure]
              | ok e' =>
                simp only [bind_ok']
                cases hlr : logCode sem e' rest with
                | error x => simp [Good, bind_err', bind_ok', Except.map, pure, Except.pure]
                | ok p2 =>
                  obtain ⟨e'', later⟩ := p2
                  simp only [bind_ok']
                  cases hrr : e''.readAll id ret with
                  | error x => simp [Good, hrr, bind_err', bind_ok', Except.map, pure, Except.pure]
                  | ok vs' =>
                    simp only [bind_ok']
                    cases hls : logStack sem vs' stack with
                    | error x => simp [Good, hrr, hls, bind_err', bind_ok', Except.map, pure, Except.pure]
                    | ok p3 =>
                      obtain ⟨fin, l2⟩ := p3
                      simp only [hrr, hls, bind_ok', Except.map, pure, Except.pure, Good, List.append_nil]
                      refine ⟨⟨f, vs.drop nc, r, Seg.kont e q.outs rest ret :: stack⟩, rfl, rfl, rfl, hcall, ?_, ?_⟩
                      · simp only [Frame.cont, nrecS, Seg.code, hfb]; omega
                      · simp only [Frame.cont, logStack, hent, he0, he1, Seg.code, Seg.ret, hfb, hfo, bind_assoc, bind_ok',
                          hlb, hrd]
                        simp only [Seg.enter, hw, hlr, hrr, hls, bind_ok', pure, Except.pure]
                        simp [List.append_assoc]

theorem good_stack (sem : Sem) : ∀ (segs : List Seg), RecSemS sem segs →
    ∀ vs, Good sem (logStack sem vs segs) (ttStack sem vs segs) (nrecS segs)
  | [], _, vs => by simp [logStack, ttStack, Good]
  | s :: ss, h, vs => by
    obtain ⟨hc, hss⟩ := h
    rw [logStack_cons, ttStack_cons]
    cases s.enter vs with
    | error x => simp [Good, bind_err']
    | ok e =>
      simp only [bind_ok', nrecS]
      exact good_code sem s.ret ss hss (good_stack sem ss hss) s.code e hc

/-! ## The `_record` loop -/

/-- What is observable of a recording: final value, per frame (args, local return value),
    jump points. -/
def Debugger.obs (d : Debugger) : List Val × List (List Val × List Val) × List (String × Nat) :=
  (d.final, d.frames.map Frame.obs, d.jumps)

def Entry.obs (en : Entry) : List Val × List Val := (en.args, en.ret)

theorem record_loop (sem : Sem) : ∀ (n : Nat) (segs : List Seg) (vs : List Val) (seq : List Frame)
    (jp : List (String × Nat)), RecSemS sem segs → nrecS segs ≤ n →
    (ttStack sem vs segs >>= fun p => recordLoop sem n p.1 p.2 seq jp).map Debugger.obs =
      (logStack sem vs segs).map (fun p =>
        (p.1, seq.map Frame.obs ++ p.2.map Entry.obs, jumpsOf jp seq.length p.2)) := by
  intro n
  induction n with
  | zero =>
    intro segs vs seq jp h hn
    have hg := good_stack sem segs h vs
    cases hl : logStack sem vs segs with
    | error x => rw [hl] at hg; simp only [Good] at hg; rw [hg]; rfl
    | ok p =>
      obtain ⟨fin, log⟩ := p
      cases log with
      | nil =>
        rw [hl] at hg; simp only [Good] at hg; rw [hg]
        simp [bind_ok', recordLoop, Except.map, Debugger.obs, jumpsOf]
      | cons en log =>
        rw [hl] at hg; simp only [Good] at hg
        obtain ⟨fr, _, _, _, _, hnn, _⟩ := hg
        omega
  | succ n ih =>
    intro segs vs seq jp h hn
    have hg := good_stack sem segs h vs
    cases hl : logStack sem vs segs with
    | error x => rw [hl] at hg; simp only [Good] at hg; rw [hg]; rfl
    | ok p =>
      obtain ⟨fin, log⟩ := p
      cases log with
      | nil =>
        rw [hl] at hg; simp only [Good] at hg; rw [hg]
        simp [bind_ok', recordLoop, Except.map, Debugger.obs, jumpsOf]
      | cons en log =>
        rw [hl] at hg; simp only [Good] at hg
        obtain ⟨fr, himpl, ha, hr, hrs, hnn, hcont⟩ := hg
        rw [himpl]
        simp only [bind_ok', recordLoop]
        have := ih fr.cont fr.args (seq ++ [fr]) (addJump jp en.tag ((seq ++ [fr]).length - 1)) hrs (by omega)
        rw [hcont] at this
        simp only [Except.map] at this ⊢
        have e1 : (ttStack sem fr.args fr.cont >>= fun p => recordLoop sem n p.1 p.2 (seq ++ [fr])
            (addJump jp en.tag ((seq ++ [fr]).length - 1))) =
            (do let (rv, next) ← ttStack sem fr.args fr.cont
                recordLoop sem n rv next (seq ++ [fr]) (addJump jp en.tag ((seq ++ [fr]).length - 1))) := by
          rfl
        rw [← e1]
        cases hx : (ttStack sem fr.args fr.cont >>= fun p => recordLoop sem n p.1 p.2 (seq ++ [fr])
            (addJump jp en.tag ((seq ++ [fr]).length - 1))) with
        | error x => rw [hx] at this; cases this
        | ok d =>
          rw [hx] at this
          simp only [Except.ok.injEq] at this ⊢
          rw [this]
          simp [Frame.obs, Entry.obs, ha, hr, jumpsOf]

theorem record_obs (sem : Sem) (segs : List Seg) (args : List Val) (h : RecSemS sem segs) :
    (record sem segs args).map Debugger.obs =
      (logStack sem args segs).map (fun p => (p.1, p.2.map Entry.obs, jumpsOf [] 0 p.2)) := by
  have := record_loop sem (nrecS segs) segs args [] [] h (Nat.le_refl _)
  simpa [record] using this

/-! ## Statement vocabulary and helper lemmas for the debugger theorems -/

/-- The invariant: the pointer and every jump target index a recorded frame. -/
def Debugger.Inv (d : Debugger) : Prop :=
  d.ptr < d.frames.length ∧ ∀ t i, jget d.jumps t = some i → i < d.frames.length

/-- Navigation operations (no `remix`). -/
def Op.isNav : Op → Bool
  | .remix _ => false
  | _ => true


theorem jget_jset (d : List (String × Nat)) (k t : String) (v : Nat) :
    jget (jset d k v) t = if k = t then some v else jget d t := by
  induction d with
  | nil => simp [jset, jget]
  | cons kv rest ih =>
    obtain ⟨k', v'⟩ := kv
    by_cases h : k' = k
    · subst h
      by_cases h2 : k' = t <;> simp [jset, jget, h2]
    · by_cases h2 : k' = t
      · subst h2
        have : ¬ k = k' := fun x => h x.symm
        simp [jset, jget, h, this]
      · simp [jset, jget, h, h2, ih]

theorem jumpsOf_range : ∀ (log : List Entry) (jp : List (String × Nat)) (base : Nat),
    (∀ t i, jget jp t = some i → i < base) →
    ∀ t i, jget (jumpsOf jp base log) t = some i → i < base + log.length
  | [], jp, base, h, t, i, hj => by simpa [jumpsOf] using h t i hj
  | en :: rest, jp, base, h, t, i, hj => by
    simp only [jumpsOf] at hj
    have h' : ∀ t i, jget (addJump jp en.tag base) t = some i → i < base + 1 := by
      intro t i ht
      unfold addJump at ht
      cases htag : en.tag with
      | none => rw [htag] at ht; exact Nat.lt_succ_of_lt (h t i ht)
      | some s =>
        rw [htag] at ht
        by_cases hs : s = ""
        · simp only [hs, if_true] at ht; exact Nat.lt_succ_of_lt (h t i ht)
        · simp only [hs, if_false, jget_jset] at ht
          by_cases hst : s = t
          · simp only [hst, if_true, Option.some.injEq] at ht; omega
          · simp only [hst, if_false] at ht; exact Nat.lt_succ_of_lt (h t i ht)
    have := jumpsOf_range rest (addJump jp en.tag base) (base + 1) h' t i hj
    simp only [List.length_cons]; omega


/-- What is observable of a debugger including its pointer. -/
def Debugger.obsP (d : Debugger) := (d.final, d.frames.map Frame.obs, d.jumps, d.ptr)


end GenjaxVerif.TT

/-! ## Example data for the non-vacuity examples of `Props/C31.lean` -/
namespace GenjaxVerif.TT.Ex
open GenjaxVerif.IR GenjaxVerif.TT

def sc (i : Int) : Val := ⟨.i32, [], [i]⟩

def exAdd (vs : List Val) : Except Err (PrimOut Val) :=
  match vs with
  | [a, b] => .ok (.one (sc (a.data.headD 0 + b.data.headD 0)))
  | _ => .error .arity

/-- `add` adds scalars; a `record_p` equation whose staged callable has no equations returns its
    single argument, any other `record_p` equation doubles its single argument. -/
def exSem : Sem := fun p ps vs =>
  if p = "add" then exAdd vs
  else if p = "record_p" then
    match ps.find "impl", vs with
    | some (.closed (.mk _ _ [] _) _), [a] => .ok (.many [a])
    | some (.closed (.mk _ _ (_ :: _) _) _), [a] => .ok (.many [sc (a.data.headD 0 + a.data.headD 0)])
    | _, _ => .error .arity
  else .error (.prim "unsupported")

/-- `f(x) = x + x`. -/
def exSrc : Fn := ⟨[], [], [0], .plain (.mk "add" false [] [.var 0, .var 0] [.var 1]) .nil, [.var 1]⟩

/-- With fuel: `record_p` evaluates its staged callable (`initialStyleImpl`). -/
def exSemN : Nat → Sem
  | 0 => fun p _ vs => if p = "add" then exAdd vs else .error (.prim "fuel")
  | n + 1 => fun p ps vs =>
    if p = "add" then exAdd vs
    else if p = "record_p" then initialStyleImpl (exSemN n) ps vs
    else .error (.prim "unsupported")

def addEq (a b o : Nat) : Eqn := .mk "add" false [] [.var a, .var b] [.var o]

/-- `inner(b) = b + b` recorded as "in"; `outer(a) = inner(a) + a` recorded as "out";
    `f(x) = tag(outer(x) + x, "out")` — nested record points and a repeated tag. -/
def innerBody : Code := .plain (addEq 0 0 1) .nil
def innerJ : Jaxpr := .mk [] [0] innerBody.eqns [.var 1]
def qInner : Eqn := .mk "record_p" true (recParams innerJ 0) [.var 0] [.var 1]
def outerBody : Code := .recd qInner (some "in") 0 [] [0] innerBody [.var 1] (.plain (addEq 1 0 2) .nil)
def outerJ : Jaxpr := .mk [] [0] outerBody.eqns [.var 2]
def qOuter : Eqn := .mk "record_p" true (recParams outerJ 0) [.var 0] [.var 1]
def qTag : Eqn := .mk "record_p" true (recParams (idFn 1).jaxpr 0) [.var 2] [.var 3]
def exNested : Fn :=
  ⟨[], [], [0],
   .recd qOuter (some "out") 0 [] [0] outerBody [.var 2]
     (.plain (addEq 1 0 2) (.recd qTag (some "out") 0 [] [0] .nil [.var 0] .nil)),
   [.var 3]⟩

end GenjaxVerif.TT.Ex
