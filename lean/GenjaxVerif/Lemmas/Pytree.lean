import GenjaxVerif.Model.Pytree
/-! Helper lemmas for model J (pytrees and `Diff`).  Property theorems live in `Props/C21.lean`.
    Every lemma is by mutual structural induction over `PT α` and `List (PT α)`. -/
namespace GenjaxVerif.PT

variable {α β γ : Type}

/-! ### leaves / bind / shape -/

theorem leavesL_eq_flatMap (ks : List (PT α)) : leavesL ks = ks.flatMap leaves := by
  induction ks with
  | nil => rfl
  | cons k ks ih => simp [leavesL, ih]

theorem bindL_eq_map (f : α → PT β) (ks : List (PT α)) : bindL f ks = ks.map (bind f) := by
  induction ks with
  | nil => rfl
  | cons k ks ih => simp [bindL, ih]

mutual
theorem leaves_bind (f : α → PT β) : ∀ t : PT α, leaves (bind f t) = (leaves t).flatMap (fun a => leaves (f a))
  | leaf a => by simp [bind, leaves]
  | node tag st kids => by simp [bind, leaves, leavesL_bindL f kids]
  | tan c => by simp [bind, leaves]
  | diff p t => by simp [bind, leaves, leaves_bind f p, leaves_bind f t]
theorem leavesL_bindL (f : α → PT β) : ∀ ks : List (PT α), leavesL (bindL f ks) = (leavesL ks).flatMap (fun a => leaves (f a))
  | [] => by simp [bindL, leavesL]
  | k :: ks => by simp [bindL, leavesL, leaves_bind f k, leavesL_bindL f ks]
end

mutual
theorem bind_bind (f : α → PT β) (g : β → PT γ) : ∀ t : PT α, bind g (bind f t) = bind (fun a => bind g (f a)) t
  | leaf a => by simp [bind]
  | node tag st kids => by simp [bind, bindL_bindL f g kids]
  | tan c => by simp [bind]
  | diff p t => by simp [bind, bind_bind f g p, bind_bind f g t]
theorem bindL_bindL (f : α → PT β) (g : β → PT γ) : ∀ ks : List (PT α), bindL g (bindL f ks) = bindL (fun a => bind g (f a)) ks
  | [] => by simp [bindL]
  | k :: ks => by simp [bindL, bind_bind f g k, bindL_bindL f g ks]
end

mutual
theorem bind_leaf : ∀ t : PT α, bind (fun a => leaf a) t = t
  | leaf a => by simp [bind]
  | node tag st kids => by simp [bind, bindL_leaf kids]
  | tan c => by simp [bind]
  | diff p t => by simp [bind, bind_leaf p, bind_leaf t]
theorem bindL_leaf : ∀ ks : List (PT α), bindL (fun a => leaf a) ks = ks
  | [] => by simp [bindL]
  | k :: ks => by simp [bindL, bind_leaf k, bindL_leaf ks]
end

theorem leaves_mapLeaves (f : α → β) (t : PT α) : leaves (mapLeaves f t) = (leaves t).map f := by
  simp only [mapLeaves, leaves_bind, leaves]
  induction leaves t with
  | nil => rfl
  | cons x xs ih => simp [ih]

theorem mapLeaves_mapLeaves (f : α → β) (g : β → γ) (t : PT α) :
    mapLeaves g (mapLeaves f t) = mapLeaves (fun a => g (f a)) t := by
  simp [mapLeaves, bind_bind, bind]

theorem mapLeaves_id (t : PT α) : mapLeaves (fun a => a) t = t := bind_leaf t

theorem shape_mapLeaves (f : α → β) (t : PT α) : shape (mapLeaves f t) = shape t := by
  simp [shape, mapLeaves_mapLeaves]

/-- The shape of `tree_map(f, t)` for a tree-valued `f` is the shape of `t` with the shapes of
    the images grafted at the leaves. -/
theorem shape_bind (f : α → PT β) (t : PT α) : shape (bind f t) = bind (fun a => shape (f a)) t := by
  simp [shape, mapLeaves, bind_bind]

/-! ### unflatten -/

mutual
theorem fill_shape : ∀ (t : PT α) (r : List α), fill (shape t) (leaves t ++ r) = some (t, r)
  | leaf a, r => by simp [shape, mapLeaves, bind, leaves, fill]
  | node tag st kids, r => by
    have h := fillL_shape kids r
    simp only [shape, mapLeaves, bind, leaves] at h ⊢
    simp [fill, h]
  | tan c, r => by simp [shape, mapLeaves, bind, leaves, fill]
  | diff p t, r => by
    have h1 := fill_shape p (leaves t ++ r)
    have h2 := fill_shape t r
    simp only [shape, mapLeaves, bind, leaves] at h1 h2 ⊢
    simp [fill, List.append_assoc, h1, h2]
theorem fillL_shape : ∀ (ks : List (PT α)) (r : List α),
    fillL (bindL (fun _ => leaf ()) ks) (leavesL ks ++ r) = some (ks, r)
  | [], r => by simp [bindL, leavesL, fillL]
  | k :: ks, r => by
    have h1 := fill_shape k (leavesL ks ++ r)
    have h2 := fillL_shape ks r
    simp only [shape, mapLeaves] at h1
    simp [bindL, leavesL, fillL, List.append_assoc, h1, h2]
end

mutual
theorem fill_sound : ∀ (td : PT Unit) (xs : List α) (t : PT α) (r : List α),
    fill td xs = some (t, r) → shape t = td ∧ xs = leaves t ++ r
  | leaf u, xs, t, r, h => by
    cases xs with
    | nil => simp [fill] at h
    | cons x xs =>
      simp only [fill, Option.some.injEq, Prod.mk.injEq] at h
      obtain ⟨h1, h2⟩ := h
      subst h1; subst h2
      simp [shape, mapLeaves, bind, leaves]
  | node tag st kids, xs, t, r, h => by
    simp only [fill] at h
    cases hk : fillL kids xs with
    | none => simp [hk] at h
    | some res =>
      obtain ⟨ks, r'⟩ := res
      simp only [hk, Option.some.injEq, Prod.mk.injEq] at h
      obtain ⟨h1, h2⟩ := h
      subst h1; subst h2
      have := fillL_sound kids xs ks r' hk
      simp [shape, mapLeaves, bind, leaves, this.1, this.2]
  | tan c, xs, t, r, h => by
    simp only [fill, Option.some.injEq, Prod.mk.injEq] at h
    obtain ⟨h1, h2⟩ := h
    subst h1; subst h2
    simp [shape, mapLeaves, bind, leaves]
  | diff p q, xs, t, r, h => by
    simp only [fill] at h
    cases hp : fill p xs with
    | none => simp [hp] at h
    | some res =>
      obtain ⟨p', r1⟩ := res
      simp only [hp] at h
      cases hq : fill q r1 with
      | none => simp [hq] at h
      | some res2 =>
        obtain ⟨q', r2⟩ := res2
        simp only [hq, Option.some.injEq, Prod.mk.injEq] at h
        obtain ⟨h1, h2⟩ := h
        subst h1; subst h2
        have a := fill_sound p xs p' r1 hp
        have b := fill_sound q r1 q' r2 hq
        have a1 := a.1
        have b1 := b.1
        simp only [shape, mapLeaves] at a1 b1
        simp [shape, mapLeaves, bind, leaves, a1, b1, a.2, b.2]
theorem fillL_sound : ∀ (tds : List (PT Unit)) (xs : List α) (ks : List (PT α)) (r : List α),
    fillL tds xs = some (ks, r) → bindL (fun _ => leaf ()) ks = tds ∧ xs = leavesL ks ++ r
  | [], xs, ks, r, h => by
    simp only [fillL, Option.some.injEq, Prod.mk.injEq] at h
    obtain ⟨h1, h2⟩ := h
    subst h1; subst h2
    simp [bindL, leavesL]
  | td :: tds, xs, ks, r, h => by
    simp only [fillL] at h
    cases hp : fill td xs with
    | none => simp [hp] at h
    | some res =>
      obtain ⟨k', r1⟩ := res
      simp only [hp] at h
      cases hq : fillL tds r1 with
      | none => simp [hq] at h
      | some res2 =>
        obtain ⟨ks', r2⟩ := res2
        simp only [hq, Option.some.injEq, Prod.mk.injEq] at h
        obtain ⟨h1, h2⟩ := h
        subst h1; subst h2
        have a := fill_sound td xs k' r1 hp
        have b := fillL_sound tds r1 ks' r2 hq
        have a1 := a.1
        simp only [shape, mapLeaves] at a1
        simp [bindL, leavesL, a1, b.1, a.2, b.2]
end

theorem unflatten_shape_leaves (t : PT α) : unflatten (shape t) (leaves t) = .ok t := by
  have h := fill_shape t []
  simp only [List.append_nil] at h
  simp [unflatten, h]

/-- `unflatten` succeeds only with exactly as many leaves as the treedef has holes, and what it
    builds flattens back to the inputs. -/
theorem unflatten_sound (td : PT Unit) (xs : List α) (t : PT α) (h : unflatten td xs = .ok t) :
    shape t = td ∧ leaves t = xs := by
  unfold unflatten at h
  split at h
  · rename_i t' hf
    have := fill_sound td xs t' [] hf
    simp only [Except.ok.injEq] at h
    subst h
    simp [this.1, this.2]
  · simp at h

/-- `tree_map(f, t)` is flatten, map over the leaves, unflatten. -/
theorem unflatten_map (f : α → β) (t : PT α) :
    unflatten (shape t) ((leaves t).map f) = .ok (mapLeaves f t) := by
  rw [← shape_mapLeaves f t, ← leaves_mapLeaves f t]
  exact unflatten_shape_leaves _

/-! ### `Diff` helpers -/

@[simp] theorem isDiff_leaf (a : α) : isDiff (leaf a) = false := rfl
@[simp] theorem isDiff_node (tag : String) (st : List String) (ks : List (PT α)) : isDiff (node tag st ks) = false := rfl
@[simp] theorem isDiff_tan (c : Change) : isDiff (tan c : PT α) = false := rfl
@[simp] theorem isDiff_diff (p t : PT α) : isDiff (diff p t) = true := rfl
@[simp] theorem isCT_leaf (a : α) : isChangeTangent (leaf a) = false := rfl
@[simp] theorem isCT_node (tag : String) (st : List String) (ks : List (PT α)) : isChangeTangent (node tag st ks) = false := rfl
@[simp] theorem isCT_tan (c : Change) : isChangeTangent (tan c : PT α) = true := rfl
@[simp] theorem isCT_diff (p t : PT α) : isChangeTangent (diff p t) = false := rfl

theorem isChangeTangent_iff (t : PT α) : isChangeTangent t = true ↔ ∃ c, t = tan c := by
  cases t <;> simp [isChangeTangent]

theorem isNoChange_iff (t : PT α) : isNoChange t = true ↔ t = tan .no := by
  cases t with
  | tan c => cases c <;> simp [isNoChange]
  | _ => simp [isNoChange]

theorem both_ok {γ δ : Type} (x : Except Err γ) (y : Except Err δ) (a : γ) (b : δ) :
    both x y = .ok (a, b) ↔ x = .ok a ∧ y = .ok b := by
  cases x <;> cases y <;> simp [both]

mutual
theorem plain_noDiff : ∀ t : PT α, plain t = true → noDiff t = true
  | leaf _, _ => rfl
  | node _ _ kids, h => by simp only [plain] at h; simp [noDiff, plainL_noDiffL kids h]
  | tan _, h => by simp [plain] at h
  | diff _ _, h => by simp [plain] at h
theorem plainL_noDiffL : ∀ ks : List (PT α), plainL ks = true → noDiffL ks = true
  | [], _ => rfl
  | k :: ks, h => by
    simp only [plainL, Bool.and_eq_true] at h
    simp [noDiffL, plain_noDiff k h.1, plainL_noDiffL ks h.2]
end

mutual
theorem treePrimal_noDiff : ∀ t : PT α, noDiff t = true → treePrimal t = t
  | leaf _, _ => by simp [treePrimal, mapUpTo, primalOf]
  | node tag st kids, h => by
    simp only [noDiff] at h
    have := treePrimalL_noDiff kids h
    simp [treePrimal, mapUpTo, this]
  | tan _, _ => by simp [treePrimal, mapUpTo]
  | diff _ _, h => by simp [noDiff] at h
theorem treePrimalL_noDiff : ∀ ks : List (PT α), noDiffL ks = true → mapUpToL isDiff primalOf ks = ks
  | [], _ => rfl
  | k :: ks, h => by
    simp only [noDiffL, Bool.and_eq_true] at h
    have h1 := treePrimal_noDiff k h.1
    simp only [treePrimal] at h1
    simp [mapUpToL, h1, treePrimalL_noDiff ks h.2]
end

mutual
theorem treeTangent_noDiff : ∀ t : PT α, noDiff t = true → treeTangent t = bind (fun _ => tan .no) t
  | leaf _, _ => by simp [treeTangent, mapUpTo, tangentOf, bind]
  | node tag st kids, h => by
    simp only [noDiff] at h
    have := treeTangentL_noDiff kids h
    simp [treeTangent, mapUpTo, bind, this]
  | tan _, _ => by simp [treeTangent, mapUpTo, bind]
  | diff _ _, h => by simp [noDiff] at h
theorem treeTangentL_noDiff : ∀ ks : List (PT α), noDiffL ks = true →
    mapUpToL isDiff tangentOf ks = bindL (fun _ => tan .no) ks
  | [], _ => rfl
  | k :: ks, h => by
    simp only [noDiffL, Bool.and_eq_true] at h
    have h1 := treeTangent_noDiff k h.1
    simp only [treeTangent] at h1
    simp [mapUpToL, bindL, h1, treeTangentL_noDiff ks h.2]
end

mutual
/-- `tree_diff` against the constant tangent tree built from the same tree always succeeds. -/
theorem treeDiff_const (c : Change) : ∀ t : PT α, treeDiff t (bind (fun _ => tan c) t) = .ok (wrap c t)
  | leaf a => by simp [treeDiff, bind, wrap, mkDiff]
  | node tag st kids => by
    have := treeDiffL_const c kids
    simp [treeDiff, bind, wrap, this]
  | tan c' => by simp [treeDiff, bind, wrap]
  | diff p t => by
    have h1 := treeDiff_const c p
    have h2 := treeDiff_const c t
    simp only [wrap] at h1 h2
    simp [treeDiff, bind, wrap, h1, h2, both]
theorem treeDiffL_const (c : Change) : ∀ ks : List (PT α),
    treeDiffL ks (bindL (fun _ => tan c) ks) = .ok (bindL (fun a => diff (leaf a) (tan c)) ks)
  | [] => by simp [treeDiffL, bindL]
  | k :: ks => by
    have h1 := treeDiff_const c k
    simp only [wrap] at h1
    simp [treeDiffL, bindL, h1, treeDiffL_const c ks, both]
end

theorem retag_eq (c : Change) (t : PT α) : retag c t = .ok (wrap c (treePrimal t)) := by
  simp [retag, treeDiff_const]

mutual
theorem treePrimal_wrap (c : Change) : ∀ u : PT α, noDiff u = true → treePrimal (wrap c u) = u
  | leaf _, _ => by simp [treePrimal, wrap, bind, mapUpTo, primalOf]
  | node tag st kids, h => by
    simp only [noDiff] at h
    have := treePrimalL_wrap c kids h
    simp [treePrimal, wrap, bind, mapUpTo, this]
  | tan _, _ => by simp [treePrimal, wrap, bind, mapUpTo]
  | diff _ _, h => by simp [noDiff] at h
theorem treePrimalL_wrap (c : Change) : ∀ ks : List (PT α), noDiffL ks = true →
    mapUpToL isDiff primalOf (bindL (fun a => diff (leaf a) (tan c)) ks) = ks
  | [], _ => rfl
  | k :: ks, h => by
    simp only [noDiffL, Bool.and_eq_true] at h
    have h1 := treePrimal_wrap c k h.1
    simp only [treePrimal, wrap] at h1
    simp [mapUpToL, bindL, h1, treePrimalL_wrap c ks h.2]
end

mutual
theorem treeTangent_wrap (c : Change) : ∀ u : PT α, noDiff u = true →
    treeTangent (wrap c u) = bind (fun _ => tan c) u
  | leaf _, _ => by simp [treeTangent, wrap, bind, mapUpTo, tangentOf]
  | node tag st kids, h => by
    simp only [noDiff] at h
    have := treeTangentL_wrap c kids h
    simp [treeTangent, wrap, bind, mapUpTo, this]
  | tan _, _ => by simp [treeTangent, wrap, bind, mapUpTo]
  | diff _ _, h => by simp [noDiff] at h
theorem treeTangentL_wrap (c : Change) : ∀ ks : List (PT α), noDiffL ks = true →
    mapUpToL isDiff tangentOf (bindL (fun a => diff (leaf a) (tan c)) ks) = bindL (fun _ => tan c) ks
  | [], _ => rfl
  | k :: ks, h => by
    simp only [noDiffL, Bool.and_eq_true] at h
    have h1 := treeTangent_wrap c k h.1
    simp only [treeTangent, wrap] at h1
    simp [mapUpToL, bindL, h1, treeTangentL_wrap c ks h.2]
end

mutual
theorem plain_treePrimal : ∀ t : PT α, flatDiff t = true → plain (treePrimal t) = true
  | leaf _, _ => by simp [treePrimal, mapUpTo, primalOf, plain]
  | node tag st kids, h => by
    simp only [flatDiff] at h
    have := plainL_treePrimal kids h
    simp [treePrimal, mapUpTo, plain, this]
  | tan _, h => by simp [flatDiff] at h
  | diff q t, h => by
    simp only [flatDiff, Bool.and_eq_true] at h
    simp [treePrimal, mapUpTo, primalOf, h.1]
theorem plainL_treePrimal : ∀ ks : List (PT α), flatDiffL ks = true →
    plainL (mapUpToL isDiff primalOf ks) = true
  | [], _ => rfl
  | k :: ks, h => by
    simp only [flatDiffL, Bool.and_eq_true] at h
    have h1 := plain_treePrimal k h.1
    simp only [treePrimal] at h1
    simp [mapUpToL, plainL, h1, plainL_treePrimal ks h.2]
end

mutual
theorem treeDiff_inv : ∀ (t s r : PT α), noDiff t = true → treeDiff t s = .ok r →
    treePrimal r = t ∧ treeTangent r = s
  | leaf a, s, r, _, h => by
    simp only [treeDiff, mkDiff] at h
    split at h
    · simp only [Except.ok.injEq] at h
      subst h
      simp [treePrimal, treeTangent, mapUpTo, primalOf, tangentOf]
    · simp at h
  | node tag st kids, s, r, hn, h => by
    simp only [noDiff] at hn
    cases s with
    | node tag' st' kids' =>
      simp only [treeDiff] at h
      split at h
      · rename_i heq
        cases hk : treeDiffL kids kids' with
        | error e => simp [hk] at h
        | ok rs =>
          simp only [hk, Except.ok.injEq] at h
          subst h
          have := treeDiffL_inv kids kids' rs hn hk
          simp [treePrimal, treeTangent, mapUpTo, this.1, this.2, heq.1, heq.2]
      · simp at h
    | leaf _ => simp [treeDiff] at h
    | tan _ => simp [treeDiff] at h
    | diff _ _ => simp [treeDiff] at h
  | tan c, s, r, _, h => by
    cases s with
    | tan c' =>
      simp only [treeDiff] at h
      split at h
      · rename_i heq
        simp only [Except.ok.injEq] at h
        subst h
        simp [treePrimal, treeTangent, mapUpTo, heq]
      · simp at h
    | leaf _ => simp [treeDiff] at h
    | node _ _ _ => simp [treeDiff] at h
    | diff _ _ => simp [treeDiff] at h
  | diff _ _, _, _, hn, _ => by simp [noDiff] at hn
theorem treeDiffL_inv : ∀ (ks ss rs : List (PT α)), noDiffL ks = true → treeDiffL ks ss = .ok rs →
    mapUpToL isDiff primalOf rs = ks ∧ mapUpToL isDiff tangentOf rs = ss
  | [], ss, rs, _, h => by
    cases ss with
    | nil => simp only [treeDiffL, Except.ok.injEq] at h; subst h; simp [mapUpToL]
    | cons _ _ => simp [treeDiffL] at h
  | k :: ks, ss, rs, hn, h => by
    simp only [noDiffL, Bool.and_eq_true] at hn
    cases ss with
    | nil => simp [treeDiffL] at h
    | cons s ss =>
      simp only [treeDiffL] at h
      cases hb : both (treeDiff k s) (treeDiffL ks ss) with
      | error e => simp [hb] at h
      | ok ab =>
        obtain ⟨a, b⟩ := ab
        simp only [hb, Except.ok.injEq] at h
        subst h
        rw [both_ok] at hb
        have h1 := treeDiff_inv k s a hn.1 hb.1
        have h2 := treeDiffL_inv ks ss b hn.2 hb.2
        simp only [treePrimal, treeTangent] at h1
        simp [mapUpToL, h1.1, h1.2, h2.1, h2.2]
end

/-! ### static checks -/

mutual
theorem tangentLeaves_all : ∀ v : PT α, typedTangents v = true →
    (leavesUpTo isChangeTangent (treeTangent v)).all isNoChange = (frontierTangents v).all isNoChange
  | leaf _, _ => by simp [treeTangent, mapUpTo, tangentOf, leavesUpTo, frontierTangents, isNoChange]
  | node tag st kids, h => by
    simp only [typedTangents] at h
    have := tangentLeavesL_all kids h
    simp only [treeTangent, mapUpTo, isDiff_node, Bool.false_eq_true, if_false, leavesUpTo, isCT_node,
      frontierTangents]
    exact this
  | tan c, _ => by simp [treeTangent, mapUpTo, leavesUpTo, frontierTangents]
  | diff q t, h => by
    simp only [typedTangents, isChangeTangent_iff] at h
    obtain ⟨c, hc⟩ := h
    subst hc
    simp [treeTangent, mapUpTo, tangentOf, leavesUpTo, frontierTangents]
theorem tangentLeavesL_all : ∀ ks : List (PT α), typedTangentsL ks = true →
    (leavesUpToL isChangeTangent (mapUpToL isDiff tangentOf ks)).all isNoChange
      = (frontierTangentsL ks).all isNoChange
  | [], _ => rfl
  | k :: ks, h => by
    simp only [typedTangentsL, Bool.and_eq_true] at h
    have h1 := tangentLeaves_all k h.1
    have h2 := tangentLeavesL_all ks h.2
    simp only [treeTangent] at h1
    simp only [mapUpToL, leavesUpToL, frontierTangentsL, List.all_append, h1, h2]
end

theorem staticCheckNoChange_eq (v : PT α) (h : typedTangents v = true) :
    staticCheckNoChange v = (frontierTangents v).all isNoChange := tangentLeaves_all v h

mutual
theorem plain_allTangents : ∀ t : PT α, plain t = true → allTangents t = []
  | leaf _, _ => rfl
  | node _ _ kids, h => by simp only [plain] at h; simp [allTangents, plainL_allTangents kids h]
  | tan _, h => by simp [plain] at h
  | diff _ _, h => by simp [plain] at h
theorem plainL_allTangents : ∀ ks : List (PT α), plainL ks = true → allTangentsL ks = []
  | [], _ => rfl
  | k :: ks, h => by
    simp only [plainL, Bool.and_eq_true] at h
    simp [allTangentsL, plain_allTangents k h.1, plainL_allTangents ks h.2]
end

mutual
theorem flatDiff_frontier : ∀ t : PT α, flatDiff t = true →
    frontierTangents t = allTangents t ∧ typedTangents t = true
  | leaf _, _ => by simp [frontierTangents, allTangents, typedTangents]
  | node _ _ kids, h => by
    simp only [flatDiff] at h
    have := flatDiffL_frontier kids h
    simp [frontierTangents, allTangents, typedTangents, this.1, this.2]
  | tan _, h => by simp [flatDiff] at h
  | diff q t, h => by
    simp only [flatDiff, Bool.and_eq_true] at h
    simp [frontierTangents, allTangents, typedTangents, plain_allTangents q h.1, h.2]
theorem flatDiffL_frontier : ∀ ks : List (PT α), flatDiffL ks = true →
    frontierTangentsL ks = allTangentsL ks ∧ typedTangentsL ks = true
  | [], _ => by simp [frontierTangentsL, allTangentsL, typedTangentsL]
  | k :: ks, h => by
    simp only [flatDiffL, Bool.and_eq_true] at h
    have h1 := flatDiff_frontier k h.1
    have h2 := flatDiffL_frontier ks h.2
    simp [frontierTangentsL, allTangentsL, typedTangentsL, h1.1, h1.2, h2.1, h2.2]
end

mutual
/-- After `no_change` / `unknown_change` every leaf (up to `Diff`) is a `Diff`. -/
theorem leavesUpTo_wrap_all (c : Change) : ∀ u : PT α, (leavesUpTo isDiff (wrap c u)).all isDiff = true
  | leaf _ => by simp [wrap, bind, leavesUpTo]
  | node tag st kids => by
    have := leavesUpToL_wrap_all c kids
    simp only [wrap, bind, leavesUpTo, isDiff_node, Bool.false_eq_true, if_false]
    exact this
  | tan _ => by simp [wrap, bind, leavesUpTo]
  | diff _ _ => by simp [wrap, bind, leavesUpTo]
theorem leavesUpToL_wrap_all (c : Change) : ∀ ks : List (PT α),
    (leavesUpToL isDiff (bindL (fun a => diff (leaf a) (tan c)) ks)).all isDiff = true
  | [] => rfl
  | k :: ks => by
    have h1 := leavesUpTo_wrap_all c k
    have h2 := leavesUpToL_wrap_all c ks
    simp only [wrap] at h1
    simp only [bindL, leavesUpToL, List.all_append, h1, h2, Bool.and_self]
end

mutual
/-- The tangent leaves of a retagged plain tree: one `c` per primal leaf. -/
theorem tangentLeaves_wrap (c : Change) : ∀ u : PT α, plain u = true →
    leavesUpTo isChangeTangent (treeTangent (wrap c u)) = (leaves u).map (fun _ => tan c)
  | leaf _, _ => by simp [wrap, bind, treeTangent, mapUpTo, tangentOf, leavesUpTo, leaves]
  | node tag st kids, h => by
    simp only [plain] at h
    have := tangentLeavesL_wrap c kids h
    simp only [wrap, bind, treeTangent, mapUpTo, isDiff_node, Bool.false_eq_true, if_false, leavesUpTo,
      isCT_node, leaves]
    exact this
  | tan _, h => by simp [plain] at h
  | diff _ _, h => by simp [plain] at h
theorem tangentLeavesL_wrap (c : Change) : ∀ ks : List (PT α), plainL ks = true →
    leavesUpToL isChangeTangent (mapUpToL isDiff tangentOf (bindL (fun a => diff (leaf a) (tan c)) ks))
      = (leavesL ks).map (fun _ => tan c)
  | [], _ => rfl
  | k :: ks, h => by
    simp only [plainL, Bool.and_eq_true] at h
    have h1 := tangentLeaves_wrap c k h.1
    have h2 := tangentLeavesL_wrap c ks h.2
    simp only [wrap, treeTangent] at h1
    simp [bindL, mapUpToL, leavesUpToL, leavesL, h1, h2]
end

mutual
/-- Retagging a plain tree yields a tree that uses `Diff` as documented. -/
theorem flatDiff_wrap (c : Change) : ∀ u : PT α, plain u = true → flatDiff (wrap c u) = true
  | leaf _, _ => by simp [wrap, bind, flatDiff, plain]
  | node tag st kids, h => by
    simp only [plain] at h
    have := flatDiffL_wrap c kids h
    simp only [wrap, bind, flatDiff]
    exact this
  | tan _, h => by simp [plain] at h
  | diff _ _, h => by simp [plain] at h
theorem flatDiffL_wrap (c : Change) : ∀ ks : List (PT α), plainL ks = true →
    flatDiffL (bindL (fun a => diff (leaf a) (tan c)) ks) = true
  | [], _ => rfl
  | k :: ks, h => by
    simp only [plainL, Bool.and_eq_true] at h
    have h1 := flatDiff_wrap c k h.1
    simp only [wrap] at h1
    simp [bindL, flatDiffL, h1, flatDiffL_wrap c ks h.2]
end

theorem leaves_wrap (c : Change) (u : PT α) : leaves (wrap c u) = leaves u := by
  simp only [wrap, leaves_bind, leaves, List.append_nil]
  induction leaves u with
  | nil => rfl
  | cons x xs ih => simp [ih]

mutual
/-- `tree_primal` keeps the leaves (values and order). -/
theorem leaves_treePrimal : ∀ t : PT α, typedTangents t = true → leaves (treePrimal t) = leaves t
  | leaf _, _ => by simp [treePrimal, mapUpTo, primalOf]
  | node tag st kids, h => by
    simp only [typedTangents] at h
    have := leavesL_treePrimal kids h
    simp [treePrimal, mapUpTo, leaves, this]
  | tan _, _ => by simp [treePrimal, mapUpTo]
  | diff q t, h => by
    simp only [typedTangents, isChangeTangent_iff] at h
    obtain ⟨c, hc⟩ := h
    subst hc
    simp [treePrimal, mapUpTo, primalOf, leaves]
theorem leavesL_treePrimal : ∀ ks : List (PT α), typedTangentsL ks = true →
    leavesL (mapUpToL isDiff primalOf ks) = leavesL ks
  | [], _ => rfl
  | k :: ks, h => by
    simp only [typedTangentsL, Bool.and_eq_true] at h
    have h1 := leaves_treePrimal k h.1
    simp only [treePrimal] at h1
    simp [mapUpToL, leavesL, h1, leavesL_treePrimal ks h.2]
end

/-! ### dataclass fields -/

theorem leaves_mkData (cls : String) (fs : List (Field α)) : leaves (mkData cls fs) = leavesL (dynKids fs) := rfl

theorem staticPairs_mem (fs : List (Field α)) (n v : String) (h : Field.static n v ∈ fs) :
    (n ++ "=" ++ v) ∈ staticPairs fs := by
  induction fs with
  | nil => simp at h
  | cons f fs ih =>
    cases f with
    | static n' v' =>
      simp only [List.mem_cons, Field.static.injEq] at h
      rcases h with ⟨h1, h2⟩ | h
      · subst h1; subst h2; simp [staticPairs]
      · simp [staticPairs, ih h]
    | dyn n' v' =>
      simp only [List.mem_cons] at h
      rcases h with h | h
      · cases h
      · simp [staticPairs, ih h]

end GenjaxVerif.PT
