import GenjaxVerif.Model.Infer
/-! Helper lemmas for model G (used by Props/C25, C26, C27). -/
namespace GenjaxVerif.Infer

/-- The interface laws of `Update(constraint).edit` with unchanged arguments that C27 relies
    on (they are the content of C05/C06 for the combinators; proved below for `progGF`). -/
structure UpdateLawful {A T : Type} (p : GF A T) (ok : T → Prop) : Prop where
  /-- weight = score of the new trace − score of the old trace -/
  weight : ∀ k tr c, ok tr → (p.update k tr c).2.1 = p.score (p.update k tr c).1 - p.score tr
  /-- updating preserves being a trace of this function -/
  closed : ∀ k tr c, ok tr → ok (p.update k tr c).1

abbrev SiteRec := Addr × Int × Int × Option Key

def sumLp (l : List SiteRec) : Int := (l.map (fun s => s.2.2.1)).sum

theorem sumLp_append (a b : List SiteRec) : sumLp (a ++ b) = sumLp a + sumLp b := by
  simp [sumLp, List.sum_append]

theorem sumLp_cons (x : SiteRec) (l : List SiteRec) : sumLp (x :: l) = x.2.2.1 + sumLp l := by
  simp [sumLp]

theorem updSites_weight (c : Chm) (args : List Int) :
    ∀ (p : Prog) (olds acc : List SiteRec) (w : Int) (d : Chm), olds.length = p.length →
      (updSites c args p olds acc w d).2.1 - w
        = sumLp (updSites c args p olds acc w d).1 - sumLp acc - sumLp olds := by
  intro p
  induction p with
  | nil =>
    intro olds acc w d h
    cases olds with
    | nil => simp [updSites, sumLp]
    | cons o os => simp at h
  | cons s rest ih =>
    intro olds acc w d h
    cases olds with
    | nil => simp at h
    | cons o os =>
      obtain ⟨oa, ov, olp, ok⟩ := o
      simp only [List.length_cons, Nat.add_right_cancel_iff] at h
      unfold updSites
      cases hc : c.get s.addr with
      | none =>
        simp only []
        generalize s.lp ov (evalArg s.a args (acc.map fun x => x.2.1)) = L
        have := ih os (acc ++ [(s.addr, ov, L, Option.none)]) (w + (L - olp)) d h
        simp only [sumLp, List.map_append, List.sum_append, List.map_cons, List.map_nil, List.sum_cons,
          List.sum_nil] at this ⊢
        omega
      | some v =>
        simp only []
        generalize s.lp v (evalArg s.a args (acc.map fun x => x.2.1)) = L
        have := ih os (acc ++ [(s.addr, v, L, Option.none)]) (w + (L - olp)) (d ++ [(s.addr, ov)]) h
        simp only [sumLp, List.map_append, List.sum_append, List.map_cons, List.map_nil, List.sum_cons,
          List.sum_nil] at this ⊢
        omega

theorem updSites_length (c : Chm) (args : List Int) :
    ∀ (p : Prog) (olds acc : List SiteRec) (w : Int) (d : Chm), olds.length = p.length →
      (updSites c args p olds acc w d).1.length = acc.length + p.length := by
  intro p
  induction p with
  | nil =>
    intro olds acc w d h
    cases olds with
    | nil => simp [updSites]
    | cons o os => simp at h
  | cons s rest ih =>
    intro olds acc w d h
    cases olds with
    | nil => simp at h
    | cons o os =>
      obtain ⟨oa, ov, olp, ok⟩ := o
      simp only [List.length_cons, Nat.add_right_cancel_iff] at h
      unfold updSites
      cases hc : c.get s.addr with
      | none => simp only []; rw [ih _ _ _ _ h]; simp; omega
      | some v => simp only []; rw [ih _ _ _ _ h]; simp; omega

/-! Choice-map lookups -/

theorem get_cons (ya : Addr) (yv : Int) (ys : Chm) (a : Addr) :
    Chm.get ((ya, yv) :: ys) a = if a == ya then some yv else Chm.get ys a := by
  simp only [Chm.get, List.lookup]
  cases a == ya <;> rfl

theorem get_merge_left (c d : Chm) (a : Addr) (x : Int) (h : c.get a = some x) : (merge c d).get a = some x := by
  induction c with
  | nil => simp [Chm.get] at h
  | cons y ys ih =>
    obtain ⟨ya, yv⟩ := y
    have e : merge ((ya, yv) :: ys) d = (ya, yv) :: merge ys d := rfl
    rw [e, get_cons]
    rw [get_cons] at h
    cases hb : a == ya with
    | true => simpa [hb] using h
    | false => simp only [hb] at h ⊢; exact ih h

theorem lookup_filter_none (l : Chm) (pred : Addr → Bool) (a : Addr) (h : pred a = false) :
    Chm.get (l.filter (fun p => pred p.1)) a = none := by
  induction l with
  | nil => rfl
  | cons y ys ih =>
    obtain ⟨ya, yv⟩ := y
    simp only [List.filter_cons]
    cases hy : pred ya with
    | false => simpa using ih
    | true =>
      simp only [if_true]
      rw [get_cons]
      have : (a == ya) = false := by
        cases hb : a == ya with
        | false => rfl
        | true => rw [eq_of_beq hb] at h; rw [h] at hy; cases hy
      simp only [this]; exact ih

theorem mem_keys_of_get (c : Chm) (a : Addr) (x : Int) (h : c.get a = some x) : (c.map Prod.fst).contains a = true := by
  induction c with
  | nil => simp [Chm.get] at h
  | cons y ys ih =>
    obtain ⟨ya, yv⟩ := y
    rw [get_cons] at h
    cases hb : a == ya with
    | true => simp [eq_of_beq hb]
    | false =>
      simp only [hb] at h
      have := ih h
      simp only [List.map_cons, List.contains_cons, hb, Bool.false_or]
      exact this
end GenjaxVerif.Infer
