import GenjaxVerif.Model.Sexp
import GenjaxVerif.Model.Sel
/-! Driver commands for model A.
  (sel <term> (<addr> …))  →  (ok T F …)   membership of each address
  term := all | none | leaf | (at a…) | (or t t) | (and t t) | (not t) | (ext t a…) | (call t a…)
  a    := atom; `...` is the wildcard. -/
namespace GenjaxVerif.SelD
open GenjaxVerif Sel

def xaddr : Sexp → Option XAddr
  | .atom "..." => some none
  | .atom s => some (some s)
  | _ => Option.none

def saddr : Sexp → Option String
  | .atom s => some s
  | _ => Option.none

partial def term : Sexp → Option Sel
  | .atom "all" => some .all
  | .atom "none" => some .none
  | .atom "leaf" => some .leaf
  | .list (.atom "at" :: as) => do let as ← as.mapM xaddr; pure (atAddr as)
  | .list [.atom "or", a, b] => do pure (mkOr (← term a) (← term b))
  | .list [.atom "and", a, b] => do pure (mkAnd (← term a) (← term b))
  | .list [.atom "not", a] => do pure (mkCompl (← term a))
  | .list (.atom "ext" :: t :: as) => do pure (extend (← term t) (← as.mapM xaddr))
  | .list (.atom "call" :: t :: as) => do pure (subs (← term t) (← as.mapM saddr))
  | _ => Option.none

def handle (args : List Sexp) : Sexp :=
  match args with
  | [t, .list addrs] =>
    match term t, addrs.mapM (Sexp.listOf? saddr) with
    | some s, some ps => .list (.atom "ok" :: ps.map (fun p => Sexp.ofBool (mem s p)))
    | _, _ => .list [.atom "err", .atom "bad-term"]
  | _ => .list [.atom "err", .atom "bad-request"]

end GenjaxVerif.SelD

namespace GenjaxVerif.SelD
def commands : List (String × (List Sexp → Sexp)) := [("sel", handle)]
end GenjaxVerif.SelD
