import GenjaxVerif.Model.Sexp
import GenjaxVerif.Model.Infer
/-! Driver commands for model G (inference algebra), run on the concrete `progGF`.

  (infer <variant> <seed> <op>)
    variant := (v b b b b)                 margFix keysFix rejuvFix annotFix   (b = T | F)
    prog    := ((addr m c0 c1 c2 aspec) …)      aspec := (c n) | (p i) | (a i)
    chm     := ((addr n) …)        ints := (n …)       key := (n …)
    sel     := (b addr …)                       neg flag, addresses
    target  := (tgt prog ints chm)
    q       := none | (exact prog (addr …)) | (marg prog (addr …) sel)
               the proposal program's positional arguments are the target's constraint at the listed addresses
    alg     := (imp target q) | (impk target q K) | (ct alg target)
    op :=
      (rejuv prog ints key chm qprog (amap …) key)     amap item := (get addr) | (c n)
            trace := generate(key, chm) of prog; then Rejuvenate(qprog, amap).edit(key', trace)
      (smc alg key) | (csmc alg key chm)
      (rw alg key target idx) | (est alg key chm target idx)
      (enc alg key target) | (ernc alg key target chm w)
      (mrw prog ints sel algopt key)   | (mest prog ints sel algopt key chm b)      algopt := none | alg
      (keys K key)                                        key routing of Importance / ImportanceK
  responses: (ok …) | (err <enum>)
-/
namespace GenjaxVerif.InferD
open GenjaxVerif Infer

abbrev PT := Target (List Int) PTrace
abbrev PAlg := Alg (List Int) PTrace

def atom? : Sexp → Option String
  | .atom s => some s
  | _ => none

def aspec? : Sexp → Option ArgSpec
  | .list [.atom "c", n] => do pure (.const (← n.int?))
  | .list [.atom "p", i] => do pure (.prev (← i.nat?))
  | .list [.atom "a", i] => do pure (.arg (← i.nat?))
  | _ => none

def site? : Sexp → Option Site
  | .list [.atom addr, m, c0, c1, c2, a] => do
    pure ⟨addr, ← m.nat?, ← c0.int?, ← c1.int?, ← c2.int?, ← aspec? a⟩
  | _ => none

def prog? (s : Sexp) : Option Prog := Sexp.listOf? site? s

def chm? (s : Sexp) : Option Chm :=
  Sexp.listOf? (fun x => match x with
    | .list [.atom a, n] => do pure (a, ← n.int?)
    | _ => none) s

def ints? (s : Sexp) : Option (List Int) := Sexp.listOf? Sexp.int? s
def key? (s : Sexp) : Option Key := Sexp.listOf? Sexp.nat? s

def sel? : Sexp → Option Sel
  | .list (b :: as) => do pure ⟨← b.bool?, ← as.mapM atom?⟩
  | _ => none

def variant? : Sexp → Option Variant
  | .list [.atom "v", a, b, c, d] => do pure ⟨← a.bool?, ← b.bool?, ← c.bool?, ← d.bool?⟩
  | _ => none

def distinctAddrs (c : Chm) : Bool := (c.map Prod.fst).eraseDups.length == c.length

def target? (seed : Nat) : Sexp → Option PT
  | .list [.atom "tgt", p, as, c] => do
    let p ← prog? p
    let as ← ints? as
    let c ← chm? c
    if wfProg p as.length && within p c && distinctAddrs c then pure ⟨progGF seed p, as, c⟩ else none
  | _ => none

def obsArgs (obs : List Addr) (t : PT) : List Int := obs.map (fun a => (t.constraint.get a).getD 0)

/-- A proposal; `need` = addresses a retained choice map must provide for `assess` to be defined. -/
def q? (v : Variant) (seed : Nat) (t : PT) : Sexp → Option (Option (SD (List Int) PTrace))
  | .atom "none" => some none
  | .list [.atom "exact", p, obs] => do
    let p ← prog? p
    let obs ← Sexp.listOf? atom? obs
    if wfProg p obs.length && obs.all (fun a => (t.constraint.get a).isSome) then
      pure (some (exactSD ((progGF seed p).comap (obsArgs obs))))
    else none
  | .list [.atom "marg", p, obs, s] => do
    let p ← prog? p
    let obs ← Sexp.listOf? atom? obs
    let s ← sel? s
    if wfProg p obs.length && obs.all (fun a => (t.constraint.get a).isSome) then
      pure (some (margSD v ((progGF seed p).comap (obsArgs obs)) s))
    else none
  | _ => none

partial def alg? (v : Variant) (seed : Nat) : Sexp → Option PAlg
  | .list [.atom "imp", t, q] => do
    let t ← target? seed t
    pure (.importance t (← q? v seed t q))
  | .list [.atom "impk", t, q, k] => do
    let t ← target? seed t
    let k ← k.nat?
    if k == 0 then none else pure (.importanceK t (← q? v seed t q) k)
  | .list [.atom "ct", a, t] => do pure (.changeTarget (← alg? v seed a) (← target? seed t))
  | _ => none

def xchm (c : Chm) : Sexp := .list (c.map (fun (a, n) => .list [.atom a, Sexp.ofInt n]))
def xkey (k : Key) : Sexp := .list (k.map Sexp.ofNat)
def xtrace (t : PTrace) : Sexp := .list [xchm t.choices, Sexp.ofInt t.score]
def xparticles (pc : Particles PTrace) : Sexp :=
  .list (pc.map (fun (t, w) => .list [xchm t.choices, Sexp.ofInt t.score, Sexp.ofInt w,
    .list (t.draws.map xkey)]))
def xlw : LW → Sexp
  | .exact w => .list [.atom "exact", Sexp.ofInt w]
  | .lme b s ws => .list [.atom "lme", Sexp.ofInt b, Sexp.ofBool s, .list (ws.map Sexp.ofInt)]
def xerr : Err → Sexp
  | .typeError => .list [.atom "err", .atom "TypeError"]
  | .bad => .list [.atom "err", .atom "bad"]
def ok (xs : List Sexp) : Sexp := .list (.atom "ok" :: xs)
def bad : Sexp := .list [.atom "err", .atom "bad-request"]

def amap? (s : Sexp) : Option (List (Sum Addr Int)) :=
  Sexp.listOf? (fun x => match x with
    | .list [.atom "get", .atom a] => some (Sum.inl a)
    | .list [.atom "c", n] => do pure (Sum.inr (← n.int?))
    | _ => none) s

def applyAmap (am : List (Sum Addr Int)) (c : Chm) : List Int :=
  am.map (fun x => match x with | .inl a => (c.get a).getD 0 | .inr n => n)

def algOpt? (v : Variant) (seed : Nat) : Sexp → Option (Option PAlg)
  | .atom "none" => some none
  | s => do pure (some (← alg? v seed s))

def handleOp (v : Variant) (seed : Nat) : Sexp → Option Sexp
  | .list [.atom "rejuv", p, as, k0, c, qp, am, k] => do
    let p ← prog? p
    let as ← ints? as
    let c ← chm? c
    let qp ← prog? qp
    let am ← amap? am
    let k0 ← key? k0
    let k ← key? k
    -- the proposal must propose addresses of the model only, and the argument mapping must
    -- be defined where the modelled code applies it (pinned code: on the discard)
    let qaddrs := qp.map (·.addr)
    let okAm := am.all (fun x => match x with
      | .inl a => if v.rejuvFix then p.any (fun s => s.addr == a) else qaddrs.contains a
      | .inr _ => true)
    if !(wfProg p as.length && wfProg qp am.length && within p c && distinctAddrs c
         && qaddrs.all (fun a => p.any (fun s => s.addr == a)) && okAm) then none
    let g := progGF seed p
    let tr := (g.generate k0 c as).1
    let (ntr, w) := rejuvenate v g (progGF seed qp) (applyAmap am) k tr
    pure (ok [xtrace tr, xtrace ntr, Sexp.ofInt w])
  | .list [.atom "smc", a, k] => do
    let a ← alg? v seed a
    pure (ok [xparticles (a.runSmc v (← key? k))])
  | .list [.atom "csmc", a, k, c] => do
    let a ← alg? v seed a
    let c ← chm? c
    if !distinctAddrs c then none
    match a.runCsmc v (← key? k) c with
    | .ok pc => pure (ok [xparticles pc])
    | .error e => pure (xerr e)
  | .list [.atom "rw", a, k, t, i] => do
    let a ← alg? v seed a
    let t ← target? seed t
    match a.randomWeighted v (← key? k) t (← i.nat?) with
    | some (lw, c) => pure (ok [xlw lw, xchm c])
    | none => pure (.list [.atom "err", .atom "index"])
  | .list [.atom "est", a, k, c, t, i] => do
    let a ← alg? v seed a
    let t ← target? seed t
    let c ← chm? c
    match a.estimateLogpdf v (← key? k) c t (← i.nat?) with
    | .ok (some lw) => pure (ok [xlw lw])
    | .ok none => pure (.list [.atom "err", .atom "index"])
    | .error e => pure (xerr e)
  | .list [.atom "enc", a, k, t] => do
    let a ← alg? v seed a
    let t ← target? seed t
    pure (ok [xlw (a.estimateNormalizingConstant v (← key? k) t)])
  | .list [.atom "ernc", a, k, t, c, w] => do
    let a ← alg? v seed a
    let t ← target? seed t
    let c ← chm? c
    match a.estimateReciprocalNormalizingConstant v (← key? k) t c (← w.int?) with
    | .ok (some lw) => pure (ok [xlw lw])
    | .ok none => pure (.list [.atom "err", .atom "empty"])
    | .error e => pure (xerr e)
  | .list [.atom "mrw", p, as, s, ao, k] => do
    let p ← prog? p
    let as ← ints? as
    let s ← sel? s
    let ao ← algOpt? v seed ao
    if !wfProg p as.length then none
    let m : Marginal (List Int) PTrace := ⟨progGF seed p, s, ao⟩
    match m.randomWeighted v (← key? k) as with
    | .ok (some lw, c) => pure (ok [xlw lw, xchm c])
    | .ok (none, _) => pure (.list [.atom "err", .atom "empty"])
    | .error e => pure (xerr e)
  | .list [.atom "mest", p, as, s, ao, k, c, b] => do
    let p ← prog? p
    let as ← ints? as
    let s ← sel? s
    let ao ← algOpt? v seed ao
    let c ← chm? c
    if !(wfProg p as.length && within p c && distinctAddrs c) then none
    let m : Marginal (List Int) PTrace := ⟨progGF seed p, s, ao⟩
    match m.estimateLogpdf v (← key? k) c as (← b.bool?) with
    | .ok lw => pure (ok [xlw lw])
    | .error e => pure (xerr e)
  | .list [.atom "keys", kk, k] => do
    let kk ← kk.nat?
    let k ← key? k
    pure (ok [xkey (impQKey k), xkey (impTKey k),
      .list ((List.range kk).map (fun i => .list [xkey (impKQKey k i), xkey (impKTKey v k i)]))])
  | .list [.atom "keyword", k] => do pure (ok [Sexp.ofNat (keyWord seed (← key? k))])
  | _ => none

def handle (args : List Sexp) : Sexp :=
  match args with
  | [v, seed, op] =>
    match variant? v, seed.nat? with
    | some v, some seed => (handleOp v seed op).getD bad
    | _, _ => bad
  | _ => bad

def commands : List (String × (List Sexp → Sexp)) := [("infer", handle)]

end GenjaxVerif.InferD
