import GenjaxVerif.Model.Sexp
import GenjaxVerif.Model.IR
import GenjaxVerif.Model.IRSem
/-! Driver commands for model D (jaxpr interpreters).

  (ir <cj> (<val> …) (<tag> …))
      →  (ok <plain> <stateful> <incr-none> <incr-noop-handler>)
  where each result is `(ok item …)` or `(err <kind>)`; items of the plain / stateful runs are
  values, items of the incremental runs are `(d <val> N|U)` (a `Diff`) or `(r <val>)` (raw).

  cj     := (cj <jaxpr> (<val> …))                          -- ClosedJaxpr: jaxpr + consts
  jaxpr  := (jaxpr (<n> …) (<n> …) (<eqn> …) (<atom> …))    -- constvars invars eqns outvars
  eqn    := (e <prim> T|F ((<name> <param>) …) (<atom> …) (<binder> …))
  atom   := (v <n>) | (l <val>)          binder := (v <n>) | _
  param  := (i <int>) | (is <int> …) | (b T|F) | (s <atom>) | (n) | (o) | <cj> | (ls <param> …)
  val    := (i32 (<dim> …) (<int> …)) | (bool (<dim> …) (<0|1> …))
  tag    := N | U

  The runs use the MODEL's `evalPlain`, `evalStateful` (handler `Handler.noop`) and `evalIncr`
  (handler `none`, and `some Handler.noop`) with the concrete semantics `semF 64`. -/
namespace GenjaxVerif.IRD
open GenjaxVerif IR

def pVal : Sexp → Option Val
  | .list [.atom dt, .list sh, .list data] => do
    let dt ← (if dt == "i32" then some DT.i32 else if dt == "bool" then some DT.bool else none)
    let sh ← sh.mapM Sexp.nat?
    let data ← data.mapM Sexp.int?
    if data.length != Tensor.size sh then none
    else if dt == DT.bool && data.any (fun x => x != 0 && x != 1) then none
    else some ⟨dt, sh, data⟩
  | _ => none

def pAtom : Sexp → Option Atom
  | .list [.atom "v", n] => do pure (.var (← n.nat?))
  | .list [.atom "l", v] => do pure (.lit (← pVal v))
  | _ => none

def pBinder : Sexp → Option Binder
  | .atom "_" => some .drop
  | .list [.atom "v", n] => do pure (.var (← n.nat?))
  | _ => none

mutual
  partial def pParam : Sexp → Option Param
    | .list [.atom "i", x] => do pure (.int (← x.int?))
    | .list (.atom "is" :: xs) => do pure (.ints (← xs.mapM Sexp.int?))
    | .list [.atom "b", x] => do pure (.bool (← x.bool?))
    | .list [.atom "s", .atom s] => some (.str s)
    | .list [.atom "n"] => some .none
    | .list [.atom "o"] => some .opaque
    | .list [.atom "cj", j, .list cs] => do pure (.closed (← pJaxpr j) (← cs.mapM pVal))
    | .list (.atom "ls" :: xs) => do pure (.list (← xs.mapM pParam))
    | _ => none
  partial def pEqn : Sexp → Option Eqn
    | .list [.atom "e", .atom prim, multi, .list params, .list ins, .list outs] => do
      let m ← multi.bool?
      let ps ← params.mapM (fun
        | .list [.atom k, p] => do pure (k, ← pParam p)
        | _ => none)
      pure (.mk prim m ps (← ins.mapM pAtom) (← outs.mapM pBinder))
    | _ => none
  partial def pJaxpr : Sexp → Option Jaxpr
    | .list [.atom "jaxpr", .list cv, .list iv, .list eqns, .list outs] => do
      pure (.mk (← cv.mapM Sexp.nat?) (← iv.mapM Sexp.nat?) (← eqns.mapM pEqn) (← outs.mapM pAtom))
    | _ => none
end

def pTag : Sexp → Option Tag
  | .atom "N" => some .noChange
  | .atom "U" => some .unknownChange
  | _ => none

def sVal (v : Val) : Sexp :=
  .list [.atom (match v.dt with | .i32 => "i32" | .bool => "bool"),
         .list (v.shape.map Sexp.ofNat), .list (v.data.map Sexp.ofInt)]

def sTag : Tag → Sexp
  | .noChange => .atom "N"
  | .unknownChange => .atom "U"

def sIVal : IVal → Sexp
  | .raw v => .list [.atom "r", sVal v]
  | .diff v t => .list [.atom "d", sVal v, sTag t]

def sanitize (s : String) : String :=
  String.ofList (s.toList.map (fun c => if c.isAlphanum || c == '-' || c == '_' || c == ':' then c else '_'))

def sErr : Err → Sexp
  | .unbound n => .list [.atom "err", .atom "unbound", Sexp.ofNat n]
  | .arity => .list [.atom "err", .atom "arity"]
  | .badResult => .list [.atom "err", .atom "bad-result"]
  | .prim m => .list [.atom "err", .atom "prim", .atom (sanitize m)]

def sRes {α} (f : α → Sexp) : Except Err (List α) → Sexp
  | .ok xs => .list (.atom "ok" :: xs.map f)
  | .error e => sErr e

def fuel : Nat := 64

def handle (args : List Sexp) : Sexp :=
  match args with
  | [.list [.atom "cj", j, .list cs], .list xs, .list tags] =>
    match pJaxpr j, cs.mapM pVal, xs.mapM pVal, tags.mapM pTag with
    | some j, some cs, some xs, some tags =>
      let sem := semF fuel
      .list [.atom "ok",
        sRes sVal (evalPlain sem j cs xs),
        sRes sVal (evalStateful sem Handler.noop j cs xs),
        sRes sIVal (evalIncr sem none j cs xs tags),
        sRes sIVal (evalIncr sem (some Handler.noop) j cs xs tags)]
    | none, _, _, _ => .list [.atom "err", .atom "bad-jaxpr"]
    | _, none, _, _ => .list [.atom "err", .atom "bad-consts"]
    | _, _, none, _ => .list [.atom "err", .atom "bad-args"]
    | _, _, _, none => .list [.atom "err", .atom "bad-tags"]
  | _ => .list [.atom "err", .atom "bad-request"]

def commands : List (String × (List Sexp → Sexp)) := [("ir", handle)]

end GenjaxVerif.IRD
