import GenjaxVerif.Model.Sexp
import GenjaxVerif.Model.IR
import GenjaxVerif.Model.IRSem
import GenjaxVerif.Model.TimeTravel
import Driver.IRD
/-! Driver command for the time-travel debugger model (C31).

  (tt <cj> (<val> …) (<op> …))
      →  (ok <plain> <log> <state0> <state1> …)

  `<cj>` is the source function's ClosedJaxpr in the protocol of `Driver/IRD.lean`; every
  `record_p` equation additionally carries a param `(tag (s NAME))`, `(tag (n))` (no tag) or
  `(tag (o))` (the empty string).
  op     := (jump NAME) | fwd | bwd | (remix (<val> …))
  plain  := (ok <val> …) | (err …)                 -- `evalPlain` of the source jaxpr
  log    := (ok (<val> …) (entry …)) | (err …)     -- `evalLog` of `instrument src`: result and call log
  state  := (d (<val> …) ((fr (<val> …) (<val> …)) …) ((NAME idx) …) ptr TAG|-)  |  (err …)
  `state0` is `timeMachine sem src args`; `state(i+1)` is the result of the i-th operation applied
  to the last successful state (`Debugger.step`); after an `(err …)` the session continues from the
  debugger it had (`Debugger.run`).  If `state0` is an error no further states are printed.
  The runs use the MODEL's definitions with the concrete semantics `semF 64`. -/
namespace GenjaxVerif.TimeTravelD
open GenjaxVerif IR TT IRD

def pOp : Sexp → Option Op
  | .atom "fwd" => some .fwd
  | .atom "bwd" => some .bwd
  | .list [.atom "jump", .atom t] => some (.jump t)
  | .list [.atom "remix", .list vs] => do pure (.remix (← vs.mapM pVal))
  | _ => none

def sVals (vs : List Val) : Sexp := .list (vs.map sVal)

def sTagName (t : Option String) : Sexp :=
  match t with
  | none => .atom "-"
  | some s => if s = "" then .atom "-empty-" else .atom s

def sDbg (d : Debugger) : Sexp :=
  .list [.atom "d", sVals d.final,
    .list (d.frames.map (fun fr => .list [.atom "fr", sVals fr.args, sVals fr.ret])),
    .list (d.jumps.map (fun kv => .list [.atom kv.1, Sexp.ofNat kv.2])),
    Sexp.ofNat d.ptr, sTagName d.tagAt]

def sEntry (en : Entry) : Sexp := .list [.atom "entry", sTagName en.tag, sVals en.args, sVals en.ret]

/-- States after each operation, continuing from the last good debugger on an error. -/
def session (sem : Sem) : Debugger → List Op → List Sexp
  | _, [] => []
  | d, op :: ops =>
    match d.step sem op with
    | .ok d' => sDbg d' :: session sem d' ops
    | .error e => sErr e :: session sem d ops

def fuel : Nat := 64

def handle (args : List Sexp) : Sexp :=
  match args with
  | [.list [.atom "cj", j, .list cs], .list xs, .list ops] =>
    match pJaxpr j, cs.mapM pVal, xs.mapM pVal, ops.mapM pOp with
    | some j, some cs, some xs, some ops =>
      let sem := semF fuel
      let src := toFn fuel j cs
      let plain := sRes sVal (evalPlain sem j cs xs)
      let log := match evalLog sem (instrument src) xs with
        | .ok (vs, l) => Sexp.list [.atom "ok", sVals vs, .list (l.map sEntry)]
        | .error e => sErr e
      match timeMachine sem src xs with
      | .ok d => .list (.atom "ok" :: plain :: log :: sDbg d :: session sem d ops)
      | .error e => .list [.atom "ok", plain, log, sErr e]
    | none, _, _, _ => .list [.atom "err", .atom "bad-jaxpr"]
    | _, none, _, _ => .list [.atom "err", .atom "bad-consts"]
    | _, _, none, _ => .list [.atom "err", .atom "bad-args"]
    | _, _, _, none => .list [.atom "err", .atom "bad-ops"]
  | _ => .list [.atom "err", .atom "bad-request"]

def commands : List (String × (List Sexp → Sexp)) := [("tt", handle)]

end GenjaxVerif.TimeTravelD
