import GenjaxVerif.Model.Sexp
import GenjaxVerif.Model.Leapfrog
/-! Driver command for model H (HMC / leapfrog) over `Rat`.

  (hmc (mask T F …) (P (r …) …) (h r …) (c0 r) (x0 r …) (p0 r …) (eps r) (L n) (lognorm r))
    →  (ok (aw <res>) (rep <res>) (spec <res>))
  <res> := (x r …) (p r …) (alpha r) (s0 r) (sL r)
  r     := integer | integer/positive-integer

  `aw`   = `hmcEdit false` (kernel exactly as written, stale gradient in the carry),
  `rep`  = `hmcEdit true`  (carry returns the fresh gradient),
  `spec` = `hmcSpec`       (textbook leapfrog, weight H(start) - H(end)).
  The target is the quadratic log-density `c0 - xᵀPx/2 + hᵀx`; `half` is `1/2`. -/
namespace GenjaxVerif.LeapfrogD
open GenjaxVerif Leapfrog

def rat? : Sexp → Option Rat
  | .atom s =>
    match s.splitOn "/" with
    | [n] => (fun (i : Int) => (i : Rat)) <$> n.toInt?
    | [n, d] => do
      let i ← n.toInt?
      let k ← d.toNat?
      if k = 0 then none else some (mkRat i k)
    | _ => none
  | _ => none

def ofRat (r : Rat) : Sexp :=
  .atom (if r.den = 1 then toString r.num else toString r.num ++ "/" ++ toString r.den)

def field (name : String) (args : List Sexp) : Option (List Sexp) :=
  args.findSome? fun
    | .list (.atom n :: rest) => if n = name then some rest else none
    | _ => none

def rats (xs : List Sexp) : Option (List Rat) := xs.mapM rat?

def one {α} (f : Sexp → Option α) : List Sexp → Option α
  | [x] => f x
  | _ => none

def resSexp (tag : String) (r : Result Rat) : Sexp :=
  .list [.atom tag, .list (.atom "x" :: r.x.map ofRat), .list (.atom "p" :: r.p.map ofRat),
         .list [.atom "alpha", ofRat r.alpha], .list [.atom "s0", ofRat r.score0], .list [.atom "sL", ofRat r.scoreL]]

def err (s : String) : Sexp := .list [.atom "err", .atom s]

def handle (args : List Sexp) : Sexp :=
  if args.length != 9 then err "bad-request" else
  match field "mask" args >>= (·.mapM Sexp.bool?), field "P" args >>= (·.mapM (Sexp.listOf? rat?)),
        field "h" args >>= rats, field "c0" args >>= one rat?, field "x0" args >>= rats,
        field "p0" args >>= rats, field "eps" args >>= one rat?, field "L" args >>= one Sexp.nat?,
        field "lognorm" args >>= one rat? with
  | some mask, some P, some h, some c0, some x0, some p0, some eps, some L, some lognorm =>
    let n := x0.length
    if mask.length != n || h.length != n || P.length != n || P.any (·.length != n) then err "bad-dims"
    else if p0.length != (mask.filter id).length then err "bad-momenta"
    else
      let half : Rat := mkRat 1 2
      let t := quadTarget half P h c0
      .list [.atom "ok",
        resSexp "aw" (hmcEdit false half lognorm eps t mask L x0 p0),
        resSexp "rep" (hmcEdit true half lognorm eps t mask L x0 p0),
        resSexp "spec" (hmcSpec half eps t mask L x0 p0)]
  | _, _, _, _, _, _, _, _, _ => err "bad-field"

def commands : List (String × (List Sexp → Sexp)) := [("hmc", handle)]

end GenjaxVerif.LeapfrogD
