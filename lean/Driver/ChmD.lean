import GenjaxVerif.Model.Sexp
import GenjaxVerif.Model.Chm
import Driver.SelD
/-! Driver commands for model C (choice maps).

  (chm <expr> (<path> …))            →  (ok <obs> …) | (builderr <err>)
  (inv <expr> <shape-expr> (<path> …)) →  (ok none) | (ok some <obs> …) | (builderr <err>)

  expr  := empty | (val <pl>) | (mval <flag> <pl>) | (kw (<addr> <expr>) …) | (entry <expr> <addr>)
         | (or e e) | (mask e <flag>) | (filter e <sel-term>) | (filterchm e d)
         | (switch <swidx> e …) | (sub e <path>) | (atset e <addr> v)
  pl    := <int> | (arr <int> …)          flag := cT | cF | dT | dF
  addr  := (a <ac> …)   ac := <name> | (c n) | (d n) | (r n …)
  swidx := (c <int>) | (d <nat>)          path := (p <name>|<nat> …)
  obs   := (<in> <val> <emp> <sel>)   in, emp, sel := T | F | (E <err>) | -
           val := A | (V T <pl>) | (V F) | (E <err>)
  Malformed requests are rejected with `(err …)`. -/
namespace GenjaxVerif.ChmD
open GenjaxVerif Chm

def errAtom : ChmErr → String
  | .choiceVsNonChoice => "choiceVsNonChoice"
  | .twoSwitches => "twoSwitches"
  | .shapeMismatch => "shapeMismatch"
  | .misaligned => "misaligned"
  | .indexOutOfRange => "indexOutOfRange"
  | .switchIndex => "switchIndex"
  | .fuel => "fuel"

def payload? : Sexp → Option Payload
  | .list (.atom "arr" :: xs) => do pure (.arr (← xs.mapM Sexp.int?))
  | x => do pure (.int (← Sexp.int? x))

def flag? : Sexp → Option FlagArg
  | .atom "cT" => some (.conc true)
  | .atom "cF" => some (.conc false)
  | .atom "dT" => some (.dyn true)
  | .atom "dF" => some (.dyn false)
  | _ => none

def isName (s : String) : Bool := match s.toList with
  | c :: _ => c.isAlpha
  | [] => false

def addrC? : Sexp → Option AddrC
  | .atom s => if isName s then some (.s s) else none
  | .list [.atom "c", n] => do pure (.ix (.conc (← Sexp.nat? n)))
  | .list [.atom "d", n] => do pure (.ix (.dyn (← Sexp.nat? n)))
  | .list (.atom "r" :: ns) => do pure (.ix (.arr (← ns.mapM Sexp.nat?)))
  | _ => none

def addr? : Sexp → Option (List AddrC)
  | .list (.atom "a" :: xs) => xs.mapM addrC?
  | _ => none

def comp? : Sexp → Option Comp
  | .atom s => if isName s then some (.s s) else (s.toNat?).map Comp.i
  | _ => none

def path? : Sexp → Option Path
  | .list (.atom "p" :: xs) => xs.mapM comp?
  | _ => none

def swidx? : Sexp → Option SwIdx
  | .list [.atom "c", n] => do pure (.conc (← Sexp.int? n))
  | .list [.atom "d", n] => do pure (.dyn (← Sexp.nat? n))
  | _ => none

partial def expr? : Sexp → Option ChmExpr
  | .atom "empty" => some .empty
  | .list [.atom "val", p] => do pure (.choice (.val (← payload? p)))
  | .list [.atom "mval", f, p] => do pure (.choice (.mask (← flag? f) (← payload? p)))
  | .list (.atom "kw" :: es) => do
    let es ← es.mapM (fun e => match e with
      | .list [a, x] => do pure ((← addr? a), (← expr? x))
      | _ => none)
    pure (.kw es)
  | .list [.atom "entry", e, a] => do pure (.entry (← expr? e) (← addr? a))
  | .list [.atom "or", a, b] => do pure (.or (← expr? a) (← expr? b))
  | .list [.atom "mask", e, f] => do pure (.mask (← expr? e) (← flag? f))
  | .list [.atom "filter", e, s] => do pure (.filter (← expr? e) (← SelD.term s))
  | .list [.atom "filterchm", e, d] => do pure (.filterChm (← expr? e) (← expr? d))
  | .list (.atom "switch" :: i :: es) => do pure (.switch (← swidx? i) (← es.mapM expr?))
  | .list [.atom "sub", e, p] => do pure (.sub (← expr? e) (← path? p))
  | .list [.atom "atset", e, a, v] => do pure (.atSet (← expr? e) (← addr? a) (← expr? v))
  | _ => none

def payloadSx : Payload → Sexp
  | .int n => Sexp.ofInt n
  | .arr ns => .list (.atom "arr" :: ns.map Sexp.ofInt)

def exc {α} (f : α → Sexp) : Except ChmErr α → Sexp
  | .ok a => f a
  | .error e => .list [.atom "E", .atom (errAtom e)]

def valSx : Option Leaf → Sexp
  | none => .atom "A"
  | some l => if l.mv.valid then .list [.atom "V", .atom "T", payloadSx l.mv.val] else .list [.atom "V", .atom "F"]

def isStaticPath (p : Path) : Bool := p.all (fun c => match c with | .s _ => true | .i _ => false)

/-- The four observations of one lookup path. -/
def observe (c : Chm) (p : Path) : Sexp :=
  let k := defaultFuel
  let sub := getSubmapF k c p
  let inn := exc Sexp.ofBool (do hasValue (← sub))
  let val := exc valSx (do getValue (← sub))
  let emp := exc Sexp.ofBool (do pure (staticIsEmpty (← sub)))
  let sel := if isStaticPath p then exc Sexp.ofBool (selMemF k c (statics p)) else .atom "-"
  .list [inn, val, emp, sel]

def handleChm (args : List Sexp) : Sexp :=
  match args with
  | [e, .list ps] =>
    match expr? e, ps.mapM path? with
    | some e, some ps =>
      match ChmExpr.evalF defaultFuel e with
      | .ok c => .list (.atom "ok" :: ps.map (observe c))
      | .error err => .list [.atom "builderr", .atom (errAtom err)]
    | _, _ => .list [.atom "err", .atom "bad-term"]
  | _ => .list [.atom "err", .atom "bad-request"]

def handleInv (args : List Sexp) : Sexp :=
  match args with
  | [e, sh, .list ps] =>
    match expr? e, expr? sh, ps.mapM path? with
    | some e, some sh, some ps =>
      match (do invalidSubsetF defaultFuel (← ChmExpr.evalF defaultFuel e) (← ChmExpr.evalF defaultFuel sh)) with
      | .ok none => .list [.atom "ok", .atom "none"]
      | .ok (some x) => .list (.atom "ok" :: .atom "some" :: ps.map (observe x))
      | .error err => .list [.atom "builderr", .atom (errAtom err)]
    | _, _, _ => .list [.atom "err", .atom "bad-term"]
  | _ => .list [.atom "err", .atom "bad-request"]

def commands : List (String × (List Sexp → Sexp)) := [("chm", handleChm), ("inv", handleInv)]

end GenjaxVerif.ChmD
