import GenjaxVerif.Model.Sexp
import GenjaxVerif.Model.Pytree
/-! Driver commands for model J (pytrees and `Diff`).

  Request trees are written with the *constructors* a Python program uses:
    tree := <int> | (v <int>…)            leaf (the vector form only under `pt-nth`)
          | none | NC | UC
          | (tuple t…) | (list t…) | (dict (<key> t)…)      dict items in insertion order
          | (const <val>) | (closure <fn> t…)
          | (data <cls> (s <name> <val>) | (d <name> t) …)   fields in declaration order
          | (diff t t)
  Responses use the *registry view* (what flatten sees):
    out  := <int> | * | NC | UC | (D out out) | (n <tag> (<static>…) out…) | (err <kind>)

  (pt-all t)        → (ok (leaves …) (shape …) (rt …) (primal …) (tangent …) (nc …) (uc …)
                          (sctd b) (scnc b) (map …) (ncnc …) (ucnc …) (scnc-nc b) (scnc-uc b) (traced n))
  (pt-diff t s)     → (ok r (primal …) (tangent …)) | (err structure|typeError)
  (pt-unflat t (x…)) → out | (err leafCount)         unflatten (shape t) xs
  (pt-nth i t)      → (ok out (shape …))             leaves of t are vectors -/
namespace GenjaxVerif.PytreeD
open GenjaxVerif PT

def atom? : Sexp → Option String
  | .atom s => some s
  | _ => none

/-- Reject duplicate dict keys (no Python dict has them). -/
def distinct : List String → Bool
  | [] => true
  | x :: xs => !xs.contains x && distinct xs

partial def tree {α : Type} (lf : Sexp → Option α) : Sexp → Option (PT α)
  | .atom "none" => some mkNone
  | .atom "NC" => some (.tan .no)
  | .atom "UC" => some (.tan .unknown)
  | .list (.atom "tuple" :: ks) => do pure (mkTuple (← ks.mapM (tree lf)))
  | .list (.atom "list" :: ks) => do pure (mkList (← ks.mapM (tree lf)))
  | .list (.atom "dict" :: items) => do
    let kvs ← items.mapM (fun it => match it with
      | .list [.atom k, v] => do pure (k, ← tree lf v)
      | _ => none)
    if distinct (kvs.map (·.1)) then pure (mkDict kvs) else none
  | .list [.atom "const", .atom v] => some (mkConst v)
  | .list (.atom "closure" :: .atom fn :: ks) => do pure (mkClosure fn (← ks.mapM (tree lf)))
  | .list (.atom "data" :: .atom cls :: fs) => do
    let fs ← fs.mapM (fun f => match f with
      | .list [.atom "s", .atom n, .atom v] => some (Field.static n v)
      | .list [.atom "d", .atom n, v] => do pure (Field.dyn n (← tree lf v))
      | _ => none)
    pure (mkData cls fs)
  | .list [.atom "diff", p, t] => do pure (.diff (← tree lf p) (← tree lf t))
  | s => do pure (.leaf (← lf s))

def intLeaf : Sexp → Option Int
  | .atom s => s.toInt?
  | _ => none

def vecLeaf : Sexp → Option (List Int)
  | .list (.atom "v" :: xs) => xs.mapM intLeaf
  | _ => none

partial def out {α : Type} (lf : α → Sexp) : PT α → Sexp
  | .leaf a => lf a
  | .node tag st kids => .list (.atom "n" :: .atom tag :: .list (st.map .atom) :: kids.map (out lf))
  | .tan .no => .atom "NC"
  | .tan .unknown => .atom "UC"
  | .diff p t => .list [.atom "D", out lf p, out lf t]

def errS : Err → Sexp
  | .structure => .list [.atom "err", .atom "structure"]
  | .typeError => .list [.atom "err", .atom "typeError"]
  | .leafCount => .list [.atom "err", .atom "leafCount"]

def outE (r : Except Err (PT Int)) : Sexp :=
  match r with
  | .ok t => out Sexp.ofInt t
  | .error e => errS e

def star (_ : Unit) : Sexp := .atom "*"

def named (n : String) (x : Sexp) : Sexp := .list [.atom n, x]

def bad : Sexp := .list [.atom "err", .atom "bad-request"]

def scOf (r : Except Err (PT Int)) : Sexp :=
  match r with
  | .ok t => Sexp.ofBool (staticCheckNoChange t)
  | .error e => errS e

def again (f : PT Int → Except Err (PT Int)) (r : Except Err (PT Int)) : Except Err (PT Int) :=
  match r with
  | .ok t => f t
  | .error e => .error e

def handleAll (args : List Sexp) : Sexp :=
  match args with
  | [t] =>
    match tree intLeaf t with
    | some t =>
      .list [.atom "ok",
        .list (.atom "leaves" :: (leaves t).map Sexp.ofInt),
        named "shape" (out star (shape t)),
        named "rt" (outE (boundary t)),
        named "primal" (out Sexp.ofInt (treePrimal t)),
        named "tangent" (out Sexp.ofInt (treeTangent t)),
        named "nc" (outE (noChange t)),
        named "uc" (outE (unknownChange t)),
        named "sctd" (Sexp.ofBool (staticCheckTreeDiff t)),
        named "scnc" (Sexp.ofBool (staticCheckNoChange t)),
        named "map" (out Sexp.ofInt (mapLeaves (fun x => 2 * x + 1) t)),
        named "ncnc" (outE (again noChange (noChange t))),
        named "ucnc" (outE (again unknownChange (noChange t))),
        named "scnc-nc" (scOf (noChange t)),
        named "scnc-uc" (scOf (unknownChange t)),
        named "traced" (Sexp.ofNat (tracedInputs t))]
    | none => bad
  | _ => bad

def handleDiff (args : List Sexp) : Sexp :=
  match args with
  | [t, s] =>
    match tree intLeaf t, tree intLeaf s with
    | some t, some s =>
      match treeDiff t s with
      | .ok r => .list [.atom "ok", out Sexp.ofInt r, named "primal" (out Sexp.ofInt (treePrimal r)),
          named "tangent" (out Sexp.ofInt (treeTangent r))]
      | .error e => errS e
    | _, _ => bad
  | _ => bad

def handleUnflat (args : List Sexp) : Sexp :=
  match args with
  | [t, .list xs] =>
    match tree intLeaf t, xs.mapM intLeaf with
    | some t, some xs => outE (unflatten (shape t) xs)
    | _, _ => bad
  | _ => bad

def optLeaf : Option Int → Sexp
  | some x => Sexp.ofInt x
  | none => .atom "oob"

def handleNth (args : List Sexp) : Sexp :=
  match args with
  | [i, t] =>
    match i.nat?, tree vecLeaf t with
    | some i, some t => .list [.atom "ok", out optLeaf (nth i t), named "shape" (out star (shape (nth i t)))]
    | _, _ => bad
  | _ => bad

def commands : List (String × (List Sexp → Sexp)) :=
  [("pt-all", handleAll), ("pt-diff", handleDiff), ("pt-unflat", handleUnflat), ("pt-nth", handleNth)]

end GenjaxVerif.PytreeD
