import GenjaxVerif.Model.Sexp
import GenjaxVerif.Model.Adev
/-! Driver commands for the ADEV model (C29, C30).

  (adev <prog> (th n d) (tau n d) (u <entry>…) (eps <entry>…) (ln <lnentry>…))
      → (ok pn pd tn td vn vd)      jvp_estimate's primal, tangent; progValue
      | (err <kind> …)
  (vi elbo <complement|selected> <prim> (<expr>…) <logp> <logq> (th n d) (tau n d) (u …) (eps …) (ln …))
  (vi pwake <prim> (<expr>…) <logp> (th n d) (tau n d) (u …) (eps …) (ln …))
      → same response, for the model's `elboLoss` / `pwakeLoss` program

  expr  := (c n d) | th | (rv i) | (add e e) | (sub e e) | (mul e e) | (div e e) | (neg e) | (log e) | (ite i e e)
         | (flp i e)          = flipLogpdfExpr i e        (Bernoulli log-pmf of boolean i)
         | (nlp n d x m s)    = normalLogpdfExpr (n/d) x m s
  prim  := flip_enum | flip_reinforce | flip_mvd | flip_enum_parallel | categorical_enum_parallel
         | uniform | normal_reparam | normal_reinforce | (baseline prim)
  prog  := (ret e) | (sample prim (e…) prog) | (cost e prog) | (cond i prog prog prog)
  entry := ((k i…) n d)        noise value n/d at key path i…
  lnentry := (n d n' d')       ln(n/d) := n'/d'
-/
namespace GenjaxVerif.AdevD
open GenjaxVerif Adev

def rat? (n d : Sexp) : Option Rat := do
  let n ← n.int?
  let d ← d.nat?
  if d == 0 then none else some (mkRat n d)

partial def expr : Sexp → Option Expr
  | .atom "th" => some .th
  | .list [.atom "c", n, d] => do pure (.c (← rat? n d))
  | .list [.atom "rv", i] => do pure (.rv (← i.nat?))
  | .list [.atom "add", a, b] => do pure (.add (← expr a) (← expr b))
  | .list [.atom "sub", a, b] => do pure (.sub (← expr a) (← expr b))
  | .list [.atom "mul", a, b] => do pure (.mul (← expr a) (← expr b))
  | .list [.atom "div", a, b] => do pure (.div (← expr a) (← expr b))
  | .list [.atom "neg", a] => do pure (.neg (← expr a))
  | .list [.atom "log", a] => do pure (.log (← expr a))
  | .list [.atom "ite", i, a, b] => do pure (.ite (← i.nat?) (← expr a) (← expr b))
  -- the model's own log-density expressions
  | .list [.atom "flp", i, pe] => do pure (flipLogpdfExpr (← i.nat?) (← expr pe))
  | .list [.atom "nlp", n, d, x, m, s] => do pure (normalLogpdfExpr (← rat? n d) (← expr x) (← expr m) (← expr s))
  | _ => none

partial def prim : Sexp → Option Prim
  | .atom "flip_enum" => some .flipEnum
  | .atom "flip_reinforce" => some .flipReinforce
  | .atom "flip_mvd" => some .flipMvd
  | .atom "flip_enum_parallel" => some .flipEnumParallel
  | .atom "categorical_enum_parallel" => some .categoricalEnumParallel
  | .atom "uniform" => some .uniform
  | .atom "normal_reparam" => some .normalReparam
  | .atom "normal_reinforce" => some .normalReinforce
  | .list [.atom "baseline", p] => do pure (.baseline (← prim p))
  | _ => none

partial def prog : Sexp → Option Prog
  | .list [.atom "ret", e] => do pure (.ret (← expr e))
  | .list [.atom "sample", p, .list args, k] => do pure (.sample (← prim p) (← args.mapM expr) (← prog k))
  | .list [.atom "cost", e, k] => do pure (.addCost (← expr e) (← prog k))
  | .list [.atom "cond", i, a, b, k] => do pure (.cond (← i.nat?) (← prog a) (← prog b) (← prog k))
  | _ => none

def entry : Sexp → Option (Key × Rat)
  | .list [.list (.atom "k" :: path), n, d] => do pure (← path.mapM Sexp.nat?, ← rat? n d)
  | _ => none

def table (tag : String) : Sexp → Option (Key → Option Rat)
  | .list (.atom t :: es) =>
    if t != tag then none else do
      let es ← es.mapM entry
      pure (fun k => es.lookup k)
  | _ => none

def lnEntry : Sexp → Option (Rat × Rat)
  | .list [n, d, n', d'] => do pure (← rat? n d, ← rat? n' d')
  | _ => none

def lnTable : Sexp → Option (Rat → Option Rat)
  | .list (.atom "ln" :: es) => do
      let es ← es.mapM lnEntry
      pure (fun r => (es.find? (fun e => e.1 == r)).map (·.2))
  | _ => none

def tagged (tag : String) : Sexp → Option Rat
  | .list [.atom t, n, d] => if t == tag then rat? n d else none
  | _ => none

def ratS (r : Rat) : List Sexp := [Sexp.ofInt r.num, Sexp.ofNat r.den]

def errS : Err → Sexp
  | .unbound => .list [.atom "err", .atom "unbound"]
  | .arity => .list [.atom "err", .atom "arity"]
  | .noNoise kind key => .list [.atom "err", .atom "no-noise", .atom kind, .list (.atom "k" :: key.map Sexp.ofNat)]
  | .noLn r => .list (.atom "err" :: .atom "no-ln" :: ratS r)
  | .raises c => .list [.atom "err", .atom "raises", .atom c]

def run (pg : Prog) (rest : List Sexp) : Sexp :=
  match rest with
  | [th, tau, u, eps, ln] =>
    match tagged "th" th, tagged "tau" tau, table "u" u, table "eps" eps, lnTable ln with
    | some th, some tau, some u, some eps, some ln =>
      let nz : Noise := ⟨u, eps⟩
      match jvpEstimate ln nz pg ⟨th, tau⟩, progValue ln nz pg th with
      | .ok d, .ok v => .list (.atom "ok" :: (ratS d.p ++ ratS d.t ++ ratS v))
      | .error e, _ => errS e
      | _, .error e => errS e
    | _, _, _, _, _ => .list [.atom "err", .atom "bad-request"]
  | _ => .list [.atom "err", .atom "bad-request"]

def handleAdev (args : List Sexp) : Sexp :=
  match args with
  | p :: rest =>
    match prog p with
    | some pg => run pg rest
    | none => .list [.atom "err", .atom "bad-program"]
  | _ => .list [.atom "err", .atom "bad-request"]

def guideWeight : Sexp → Option GuideWeight
  | .atom "complement" => some .complement
  | .atom "selected" => some .selected
  | _ => none

def handleVi (args : List Sexp) : Sexp :=
  match args with
  | .atom "elbo" :: m :: p :: .list as :: logp :: logq :: rest =>
    match guideWeight m, prim p, as.mapM expr, expr logp, expr logq with
    | some m, some p, some as, some logp, some logq => run (elboLoss m p as logp logq) rest
    | _, _, _, _, _ => .list [.atom "err", .atom "bad-program"]
  | .atom "pwake" :: p :: .list as :: logp :: rest =>
    match prim p, as.mapM expr, expr logp with
    | some p, some as, some logp => run (pwakeLoss p as logp) rest
    | _, _, _ => .list [.atom "err", .atom "bad-program"]
  | _ => .list [.atom "err", .atom "bad-request"]

def commands : List (String × (List Sexp → Sexp)) := [("adev", handleAdev), ("vi", handleVi)]

end GenjaxVerif.AdevD
