import GenjaxVerif.Model.Sexp
import GenjaxVerif.Model.HMM
/-! Driver commands for model I (HMM).  Rationals are atoms `p/q` or `p` (q > 0).

  (hmm <variant> (init r…) (trans (r…)…) (obs (r…)…) (yss (y…) (y…) …))
     variant := written | textbook
     →  (ok (n N) (m M) (sym T|F) (pos T|F) (stoch T|F)
            (case (lik r) (fwd r) (filters (r…)…) (post r…) (ffbs r…)) …)      one `case` per ys
        `post`/`ffbs` list seqPosterior / ffbsProb over `allSeqs n |ys|` in that (lexicographic) order
  (hmmest (init r…) (trans (r…)…) (obs (r…)…) (seq x…) (ys y…))  →  (ok r) | (err length-mismatch) | (err empty-sequence)
  (hmmcirc N k eps delta)  →  (ok (r…)…)      `circulant (source N k eps delta)`

  Malformed requests (non-square tensors, empty state space, symbols out of range, bad numbers)
  are rejected with `(err …)`; nothing is defaulted. -/
namespace GenjaxVerif.HMMD
open GenjaxVerif HMM

def rat? : Sexp → Option Rat
  | .atom s =>
    match s.splitOn "/" with
    | [p] => p.toInt?.map fun (i : Int) => (i : Rat)
    | [p, q] =>
      match p.toInt?, q.toNat? with
      | some i, some d => if d = 0 then none else some (mkRat i d)
      | _, _ => none
    | _ => none
  | _ => none

def ofRat (r : Rat) : Sexp :=
  if r.den = 1 then .atom (toString r.num) else .atom (toString r.num ++ "/" ++ toString r.den)

def vec? (tag : String) : Sexp → Option (List Rat)
  | .list (.atom t :: xs) => if t = tag then xs.mapM rat? else none
  | _ => none

def mat? (tag : String) : Sexp → Option (List (List Rat))
  | .list (.atom t :: rows) => if t = tag then rows.mapM (Sexp.listOf? rat?) else none
  | _ => none

def nats? (tag : String) : Sexp → Option (List Nat)
  | .list (.atom t :: xs) => if t = tag then xs.mapM Sexp.nat? else none
  | _ => none

def variant? : Sexp → Option Fwd
  | .atom "written" => some .asWritten
  | .atom "textbook" => some .textbook
  | _ => none

def err (s : String) : Sexp := .list [.atom "err", .atom s]

/-- number of observation symbols = common row length of `obs`; `none` if ragged/empty -/
def obsWidth (h : Hmm) : Option Nat :=
  match h.obs with
  | [] => none
  | r :: rs => if rs.all (·.length == r.length) && r.length > 0 then some r.length else none

def mkHmm (i t o : Sexp) : Except String (Hmm × Nat) := do
  let some init := vec? "init" i | throw "bad-init"
  let some trans := mat? "trans" t | throw "bad-trans"
  let some obs := mat? "obs" o | throw "bad-obs"
  let h : Hmm := { init, trans, obs }
  if h.n = 0 then throw "empty-state-space"
  if !h.wf then throw "shape"
  let some m := obsWidth h | throw "shape"
  pure (h, m)

def caseOf (v : Fwd) (h : Hmm) (ys : List Nat) : Sexp :=
  .list [.atom "case",
    .list [.atom "lik", match dataLogpdf h ys with | .ok r => ofRat r | .error _ => .atom "empty"],
    .list [.atom "fwd", ofRat (forwardTotal v h ys)],
    .list (.atom "filters" :: (filters v h ys).map fun f => .list (f.map ofRat)),
    .list (.atom "post" :: (posteriorTable h ys).map ofRat),
    .list (.atom "ffbs" :: (ffbsDist v h ys).map fun p => ofRat p.2)]

def handleHmm (args : List Sexp) : Sexp :=
  match args with
  | [v, i, t, o, .list (.atom "yss" :: yss)] =>
    match variant? v, mkHmm i t o, yss.mapM (Sexp.listOf? Sexp.nat?) with
    | some v, .ok (h, m), some yss =>
      if yss.any (fun ys => ys.any (· ≥ m)) then err "symbol-out-of-range" else
      .list ([.atom "ok",
        .list [.atom "n", Sexp.ofNat h.n], .list [.atom "m", Sexp.ofNat m],
        .list [.atom "sym", Sexp.ofBool h.symm], .list [.atom "pos", Sexp.ofBool (h.pos m)],
        .list [.atom "stoch", Sexp.ofBool (h.stochastic m)]] ++ yss.map (caseOf v h))
    | none, _, _ => err "bad-variant"
    | _, .error e, _ => err e
    | _, _, none => err "bad-yss"
  | _ => err "bad-request"

def handleEst (args : List Sexp) : Sexp :=
  match args with
  | [i, t, o, s, y] =>
    match mkHmm i t o, nats? "seq" s, nats? "ys" y with
    | .ok (h, m), some seq, some ys =>
      if ys.any (· ≥ m) then err "symbol-out-of-range"
      else if seq.any (· ≥ h.n) then err "state-out-of-range"
      else match estimate h seq ys with
        | .ok r => .list [.atom "ok", ofRat r]
        | .error .lengthMismatch => err "length-mismatch"
        | .error .emptySequence => err "empty-sequence"
    | .error e, _, _ => err e
    | _, _, _ => err "bad-request"
  | _ => err "bad-request"

def handleCirc (args : List Sexp) : Sexp :=
  match args with
  | [n, k, e, d] =>
    match Sexp.nat? n, Sexp.nat? k, rat? e, rat? d with
    | some n, some k, some e, some d =>
      .list (.atom "ok" :: (circulant (source n k e d)).map fun r => .list (r.map ofRat))
    | _, _, _, _ => err "bad-request"
  | _ => err "bad-request"

end GenjaxVerif.HMMD

namespace GenjaxVerif.HMMD
def commands : List (String × (List Sexp → Sexp)) :=
  [("hmm", handleHmm), ("hmmest", handleEst), ("hmmcirc", handleCirc)]
end GenjaxVerif.HMMD
