import GenjaxVerif.Model.Sexp
import GenjaxVerif.Model.Dist
/-! Driver commands for the distribution-wrapper model (C24).

  (dist TID INIT OP …) → (ok STEP …)   — a history on one integer-valued test density
    TID  := s7 | v3 | m22 | bl | ns        (the table below; the harness defines the same densities
                                            through `genjax.exact_density`)
    INIT := (sim K ARGS) | (gen K C ARGS)
    OP   := (upd C ARGS TAG) | (regen K CHECK ARGS TAG) | (empty ARGS TAG) | (other ARGS TAG)
          | (proj CHECK) | (assess C ARGS)
    ARGS := (PYARG …)   PYARG := int | (t int …) | (d (name int) …)
    C    := none | (v VAL) | (m FLAG VAL) | (mk FLAG VAL)     FLAG := cT | cF | dT | dF
    VAL  := (int …)     TAG := nc | uc     K := nat (key data word)     CHECK := T | F
    STEP := (tr ARGS VAL SCORE [W]) | (ed ARGS VAL SCORE W TAG BWD) | (w W) | (as SCORE VAL) | (err E)
  The first failing step ends the history with `(err E)`.
  (kwbind (name|name=default …) (int …) ((name int) …)) → (ok int …) | (err type)   Python binding -/
namespace GenjaxVerif.DistD
open GenjaxVerif GenjaxVerif.Dist

abbrev DV := List Int
abbrev DA := List PyArg

def pAB : List (String × Option Int) := [("a", none), ("b", some 0)]
def pA : List (String × Option Int) := [("a", none)]

/-- helper: a density over parameters `(a, b)`. -/
def ab (smp : Nat → Int → Int → DV) (lpf : DV → Int → Int → Except Err LP) : PyBase Nat DV :=
  ofParams pAB
    (fun k xs => match xs with | [a, b] => .ok (smp k a b) | _ => .error (.base 0))
    (fun v xs => match xs with | [a, b] => lpf v a b | _ => .error (.base 0))

def emod (x : Int) (m : Int) : Int := x % m

def s7 : PyBase Nat DV := ab
  (fun k a _ => [emod ((k % 7 : Nat) + a) 7])
  (fun v a b => match v with
    | [x] => .ok (.scalar (1009 + 17 * x + 5 * a * x + 3 * a + 11 * b))
    | _ => .error (.base 1))

def v3 : PyBase Nat DV := ab
  (fun k a _ => [0, 1, 2].map (fun (i : Int) => emod ((k % 5 : Nat) + i * a + i) 5))
  (fun v a b => match v with
    | [x0, x1, x2] => .ok (.arr [211 + 13 * x0 + 7 * a * x0 + 2 * b + 0,
                                 211 + 13 * x1 + 7 * a * x1 + 2 * b + 1,
                                 211 + 13 * x2 + 7 * a * x2 + 2 * b + 2])
    | _ => .error (.base 1))

def m22 : PyBase Nat DV := ab
  (fun k a _ => [0, 1].map (fun (i : Int) => emod ((k % 3 : Nat) + i + a) 3))
  (fun v a b => match v with
    | [x0, x1] => .ok (.arr [101 + 3 * x0 + 5 * a * 0 + b + 7 * 0 * 0, 101 + 3 * x0 + 5 * a * 1 + b + 7 * 0 * 1,
                             101 + 3 * x1 + 5 * a * 0 + b + 7 * 1 * 0, 101 + 3 * x1 + 5 * a * 1 + b + 7 * 1 * 1])
    | _ => .error (.base 1))

def bl : PyBase Nat DV := ab
  (fun k a _ => [emod ((k % 2 : Nat) + a) 2])
  (fun v a b => match v with
    | [x] => .ok (.scalar (307 + 19 * x + 3 * a + 2 * b))
    | _ => .error (.base 1))

/-- `def sample(key, a)` but `def logpdf(v, a, b=0)`: sampling under two arguments is a TypeError. -/
def ns : PyBase Nat DV where
  sample := (ofParams pA
    (fun k xs => match xs with | [a] => .ok [emod ((k % 7 : Nat) + a) 7] | _ => .error (.base 0))
    (fun (_ : DV) _ => .error (.base 0))).sample
  lp := (ofParams pAB (fun (_ : Nat) _ => (.error (.base 0) : Except Err DV))
    (fun v xs => match v, xs with
      | [x], [a, b] => .ok (.scalar (503 + 23 * x + 7 * a * x + 5 * a + 13 * b))
      | _, _ => .error (.base 1))).lp

def table : List (String × PyBase Nat DV) := [("s7", s7), ("v3", v3), ("m22", m22), ("bl", bl), ("ns", ns)]

/-! parsing -/

def pyarg : Sexp → Option PyArg
  | .atom s => (s.toInt?).map .int
  | .list (.atom "t" :: xs) => do pure (.tup (← xs.mapM Sexp.int?))
  | .list (.atom "d" :: kvs) => do
    let kv ← kvs.mapM (fun e => match e with
      | .list [.atom k, v] => do pure (k, ← v.int?)
      | _ => none)
    pure (.dict kv)
  | _ => none

def args? : Sexp → Option DA
  | .list xs => xs.mapM pyarg
  | _ => none

def val? : Sexp → Option DV := Sexp.listOf? Sexp.int?

def flag? : Sexp → Option Flag
  | .atom "cT" => some (.conc true)
  | .atom "cF" => some (.conc false)
  | .atom "dT" => some (.dyn true)
  | .atom "dF" => some (.dyn false)
  | _ => none

def constraint? : Sexp → Option (Constraint DV)
  | .atom "none" => some .none
  | .list [.atom "v", v] => do pure (.value (← val? v))
  | .list [.atom "m", f, v] => do pure (.masked (← flag? f) (← val? v))
  | .list [.atom "mk", f, v] => do pure (mkConstraint (← flag? f) (← val? v))
  | _ => none

def tag? : Sexp → Option Tag
  | .atom "nc" => some .noChange
  | .atom "uc" => some .unknown
  | _ => none

/-! printing -/

def pyargS : PyArg → Sexp
  | .int i => Sexp.ofInt i
  | .tup xs => .list (.atom "t" :: xs.map Sexp.ofInt)
  | .dict kv => .list (.atom "d" :: kv.map (fun p => .list [.atom p.1, Sexp.ofInt p.2]))

def argsS (a : DA) : Sexp := .list (a.map pyargS)
def valS (v : DV) : Sexp := .list (v.map Sexp.ofInt)
def tagS : Tag → Sexp
  | .noChange => .atom "nc"
  | .unknown => .atom "uc"

/-- Canonical backward constraint: the payload of an invalid mask is not an observation. -/
def bwdS : Constraint DV → Sexp
  | .none => .atom "none"
  | .value v => .list [.atom "v", valS v]
  | .masked f v => if f.val then .list [.atom "m", .atom "T", valS v] else .list [.atom "m", .atom "F", .atom "_"]

def errS : Err → Sexp
  | .typeError => .list [.atom "err", .atom "type"]
  | .missingValue => .list [.atom "err", .atom "missing"]
  | .notSupported => .list [.atom "err", .atom "unsupported"]
  | .base _ => .list [.atom "err", .atom "base"]

def trS (t : Tr DA DV) (w : Option Int) : Sexp :=
  .list ([.atom "tr", argsS t.args, valS t.value, Sexp.ofInt t.score] ++ (w.map Sexp.ofInt).toList)

def edS (r : EditResult DA DV) : Sexp :=
  .list [.atom "ed", argsS r.tr.args, valS r.tr.value, Sexp.ofInt r.tr.score, Sexp.ofInt r.w, tagS r.ret, bwdS r.bwd]

/-! running a history -/

inductive StepOut where
  | obs (s : Sexp) (tr : Tr DA DV)
  | fail (s : Sexp)
  | bad

def initStep (d : Base Nat DA DV) : Sexp → StepOut
  | .list [.atom "sim", k, a] =>
    match k.nat?, args? a with
    | some k, some a =>
      match simulate d k a with
      | .ok t => .obs (trS t none) t
      | .error e => .fail (errS e)
    | _, _ => .bad
  | .list [.atom "gen", k, c, a] =>
    match k.nat?, constraint? c, args? a with
    | some k, some c, some a =>
      match generate d k c a with
      | .ok (t, w) => .obs (trS t (some w)) t
      | .error e => .fail (errS e)
    | _, _, _ => .bad
  | _ => .bad

def ofEdit (r : Except Err (EditResult DA DV)) : StepOut :=
  match r with
  | .ok r => .obs (edS r) r.tr
  | .error e => .fail (errS e)

def opStep (d : Base Nat DA DV) (t : Tr DA DV) : Sexp → StepOut
  | .list [.atom "upd", c, a, tg] =>
    match constraint? c, args? a, tag? tg with
    | some c, some a, some tg => ofEdit (edit d t (.update c) ⟨a, tg⟩)
    | _, _, _ => .bad
  | .list [.atom "regen", k, chk, a, tg] =>
    match k.nat?, chk.bool?, args? a, tag? tg with
    | some k, some chk, some a, some tg => ofEdit (edit d t (.regenerate k chk) ⟨a, tg⟩)
    | _, _, _, _ => .bad
  | .list [.atom "empty", a, tg] =>
    match args? a, tag? tg with
    | some a, some tg => ofEdit (editEmpty d t ⟨a, tg⟩)
    | _, _ => .bad
  | .list [.atom "other", a, tg] =>
    match args? a, tag? tg with
    | some a, some tg => ofEdit (edit d t .other ⟨a, tg⟩)
    | _, _ => .bad
  | .list [.atom "proj", chk] =>
    match chk.bool? with
    | some chk => .obs (.list [.atom "w", Sexp.ofInt (project t chk)]) t
    | none => .bad
  | .list [.atom "assess", c, a] =>
    match constraint? c, args? a with
    | some c, some a =>
      match assess d c a with
      | .ok (s, v) => .obs (.list [.atom "as", Sexp.ofInt s, valS v]) t
      | .error e => .fail (errS e)
    | _, _ => .bad
  | _ => .bad

def runOps (d : Base Nat DA DV) : Tr DA DV → List Sexp → List Sexp → Option (List Sexp)
  | _, [], acc => some acc.reverse
  | t, op :: rest, acc =>
    match opStep d t op with
    | .obs s t' => runOps d t' rest (s :: acc)
    | .fail s => some (s :: acc).reverse
    | .bad => none

def handle (args : List Sexp) : Sexp :=
  match args with
  | .atom tid :: init :: ops =>
    match table.lookup tid with
    | none => .list [.atom "err", .atom "bad-density"]
    | some pb =>
      let d := exactDensity pb
      match initStep d init with
      | .bad => .list [.atom "err", .atom "bad-request"]
      | .fail s => .list [.atom "ok", s]
      | .obs s t =>
        match runOps d t ops [s] with
        | some out => .list (.atom "ok" :: out)
        | none => .list [.atom "err", .atom "bad-request"]
  | _ => .list [.atom "err", .atom "bad-request"]

def param? : Sexp → Option (String × Option Int)
  | .atom s =>
    match s.splitOn "=" with
    | [n] => some (n, none)
    | [n, d] => do pure (n, some (← d.toInt?))
    | _ => none
  | _ => none

def handleBind (args : List Sexp) : Sexp :=
  match args with
  | [.list ps, pos, .list kvs] =>
    match ps.mapM param?, Sexp.listOf? Sexp.int? pos,
        kvs.mapM (fun e => match e with | .list [.atom k, v] => do pure (k, ← v.int?) | _ => none) with
    | some ps, some pos, some kw =>
      match bind ps pos kw with
      | .ok full => .list (.atom "ok" :: full.map Sexp.ofInt)
      | .error e => errS e
    | _, _, _ => .list [.atom "err", .atom "bad-request"]
  | _ => .list [.atom "err", .atom "bad-request"]

end GenjaxVerif.DistD

namespace GenjaxVerif.DistD
def commands : List (String × (List Sexp → Sexp)) := [("dist", handle), ("kwbind", handleBind)]
end GenjaxVerif.DistD
