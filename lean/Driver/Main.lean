import GenjaxVerif.Model.Sexp
import Driver.SelD
open GenjaxVerif

/-- Dispatch one request.  Each model registers a handler under its head atom. -/
def dispatch (req : Sexp) : Sexp :=
  match req with
  | .list (.atom "ping" :: rest) => .list (.atom "pong" :: rest)
  | .list (.atom "sel" :: rest) => SelD.handle rest
  | _ => .list [.atom "err", .atom "unknown-request"]

partial def loop (h : IO.FS.Stream) (out : IO.FS.Stream) : IO Unit := do
  let line ← h.getLine
  if line.isEmpty then return ()
  let resp := match Sexp.parse line with
    | .ok req => dispatch req
    | .error e => .list [.atom "err", .atom "parse", .atom (e.replace " " "_")]
  out.putStrLn (toString resp)
  loop h out

def main : IO Unit := do
  let stdin ← IO.getStdin
  let stdout ← IO.getStdout
  loop stdin stdout
  stdout.flush
