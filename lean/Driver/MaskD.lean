import GenjaxVerif.Model.Sexp
import GenjaxVerif.Model.Mask
/-! Driver commands for model B (flags, masks, staging helpers).

  flag   := (c T|F) | (d T|F)                     scalar flag with mode
  farg   := flag | (v T F …)                      flag of rank ≤ 1
  tree   := <int> | (t tree…)                     payload pytree / nested array
  mask   := (m flag tree) | (m1 (v …) (tree…)) | (m2 (v …) ((int…)…))
  arg    := mask | (val tree) | (val1 (tree…)) | (val2 ((int…)…))

  (mask or|xor A B) (mask inv A) (mask build ARG FARG) (mask maybe ARG FARG) (mask flatten A)
  (mask unmask A none|(some ARG-as-val) T|F) (mask orn A B…) (mask xorn A B…)
  (mask init ARG absent|none|flag)
      → (ok mask) | (ok none) | (ok (bare val)) | (ok val) | (err e)
  (flagop and|or|xor F G) (flagop not F)            → (ok farg) | (err e)
  (flagop where F tree tree)                         → (ok tree) | (err e)
  (flagop cond F fn fn tree)   fn := (aff a b) | (const tree)
  (choose (c i)|(d i) leaf…)   leaf := (b x) | (i x) | (f x)   → (ok leaf)
  (choosev (i…)|(c i)|(d i) ((leaf…)…))              → (ok leaf…)   one column per leaf position
  (mswitch i (fn…) (tree…))                          → (ok tree…)
-/
namespace GenjaxVerif.MaskD
open GenjaxVerif GenjaxVerif.MaskModel

def errS (e : Err) : Sexp :=
  .list [.atom "err", .atom (match e with
    | .shape => "shape" | .nested => "nested" | .invalidUnmask => "invalid-unmask"
    | .empty => "empty" | .typeErr => "type" | .notScalar => "not-scalar")]

def bad (s : String) : Sexp := .list [.atom "err", .atom ("bad-" ++ s)]

def flag? : Sexp → Option Flag
  | .list [.atom "c", b] => do pure (.conc (← Sexp.bool? b))
  | .list [.atom "d", b] => do pure (.dyn (← Sexp.bool? b))
  | _ => none

def farg? : Sexp → Option FlagArg
  | .list (.atom "v" :: bs) => do pure (.vec (← bs.mapM Sexp.bool?))
  | s => do pure (.sc (← flag? s))

partial def tree? : Sexp → Option Tree
  | .atom a => do pure (.leaf (← a.toInt?))
  | .list (.atom "t" :: xs) => do pure (.node (← xs.mapM tree?))
  | _ => none

def rows? (s : Sexp) : Option (List (List Int)) := Sexp.listOf? (Sexp.listOf? Sexp.int?) s

def flagS : Flag → Sexp
  | .conc b => .list [.atom "c", Sexp.ofBool b]
  | .dyn b => .list [.atom "d", Sexp.ofBool b]

def fargS : FlagArg → Sexp
  | .sc f => flagS f
  | .vec bs => .list (.atom "v" :: bs.map Sexp.ofBool)

partial def treeS : Tree → Sexp
  | .leaf x => Sexp.ofInt x
  | .node xs => .list (.atom "t" :: xs.map treeS)

def rowsS (r : List (List Int)) : Sexp := .list (r.map fun x => .list (x.map Sexp.ofInt))

def mask? : Sexp → Option AnyMask
  | .list [.atom "m", f, t] => do pure (.s ⟨← tree? t, ← flag? f⟩)
  | .list [.atom "m1", .list (.atom "v" :: bs), .list ts] => do
      pure (.v ⟨← ts.mapM tree?, ← bs.mapM Sexp.bool?⟩)
  | .list [.atom "m2", .list (.atom "v" :: bs), r] => do pure (.r2 ⟨← rows? r, ← bs.mapM Sexp.bool?⟩)
  | _ => none

def val? : Sexp → Option AnyVal
  | .list [.atom "val", t] => do pure (.s (← tree? t))
  | .list [.atom "val1", .list ts] => do pure (.v (← ts.mapM tree?))
  | .list [.atom "val2", r] => do pure (.r2 (← rows? r))
  | _ => none

def arg? (s : Sexp) : Option AnyArg :=
  match val? s with
  | some v => some (.val v)
  | none => (mask? s).map .mask

def maskS : AnyMask → Sexp
  | .s m => .list [.atom "m", flagS m.flag, treeS m.value]
  | .v m => .list [.atom "m1", .list (.atom "v" :: m.flags.map Sexp.ofBool), .list (m.values.map treeS)]
  | .r2 m => .list [.atom "m2", .list (.atom "v" :: m.flags.map Sexp.ofBool), rowsS m.rows]

def valS : AnyVal → Sexp
  | .s t => .list [.atom "val", treeS t]
  | .v ts => .list [.atom "val1", .list (ts.map treeS)]
  | .r2 r => .list [.atom "val2", rowsS r]

def flatS : AnyFlat → Sexp
  | .none => .atom "none"
  | .bare v => .list [.atom "bare", valS v]
  | .masked m => maskS m

def okOr {β} (f : β → Sexp) : Except Err β → Sexp
  | .ok x => .list [.atom "ok", f x]
  | .error e => errS e

def handleMask (args : List Sexp) : Sexp :=
  match args with
  | [.atom "or", a, b] =>
    match mask? a, mask? b with
    | some x, some y => okOr maskS (AnyMask.or x y)
    | _, _ => bad "mask"
  | [.atom "xor", a, b] =>
    match mask? a, mask? b with
    | some x, some y => okOr maskS (AnyMask.xor x y)
    | _, _ => bad "mask"
  | [.atom "inv", a] =>
    match mask? a with
    | some x => okOr maskS (.ok (AnyMask.invert x))
    | _ => bad "mask"
  | [.atom "build", a, f] =>
    match arg? a, farg? f with
    | some x, some g => okOr maskS (AnyMask.build x g)
    | _, _ => bad "build"
  | [.atom "maybe", a, f] =>
    match arg? a, farg? f with
    | some x, some g => okOr flatS (AnyMask.maybeMask x g)
    | _, _ => bad "maybe"
  | [.atom "flatten", a] =>
    match mask? a with
    | some x => okOr flatS (.ok (AnyMask.flatten x))
    | _ => bad "mask"
  | [.atom "unmask", a, d, ck] =>
    match mask? a, Sexp.bool? ck with
    | some x, some c =>
      match d with
      | .atom "none" => okOr valS (AnyMask.unmask x none c)
      | .list [.atom "some", dv] =>
        match val? dv with
        | some v => okOr valS (AnyMask.unmask x (some v) c)
        | none => bad "default"
      | _ => bad "default"
    | _, _ => bad "unmask"
  | .atom "orn" :: a :: rest =>
    match mask? a, rest.mapM mask? with
    | some x, some xs => okOr maskS (foldE AnyMask.or x xs)
    | _, _ => bad "mask"
  | .atom "xorn" :: a :: rest =>
    match mask? a, rest.mapM mask? with
    | some x, some xs => okOr maskS (foldE AnyMask.xor x xs)
    | _, _ => bad "mask"
  | [.atom "init", a, cf] =>
    let cf? : Option CtorFlag := match cf with
      | .atom "absent" => some .absent
      | .atom "none" => some .pyNone
      | s => (flag? s).map .given
    let a? : Option (MaskOrVal Tree) := match a with
      | .list [.atom "val", t] => (tree? t).map .val
      | .list [.atom "m", f, t] => do pure (.mask ⟨← tree? t, ← flag? f⟩)
      | _ => none
    match a?, cf? with
    | some x, some c => okOr (fun m => maskS (.s m)) (Mask.init x c)
    | _, _ => bad "init"
  | _ => bad "request"

inductive Fn where
  | aff (a b : Int)
  | const (t : Tree)

def Fn.run : Fn → Tree → Tree
  | .aff a b, t => Tree.map (fun x => a * x + b) t
  | .const c, _ => c

def fn? : Sexp → Option Fn
  | .list [.atom "aff", a, b] => do pure (.aff (← Sexp.int? a) (← Sexp.int? b))
  | .list [.atom "const", t] => do pure (.const (← tree? t))
  | _ => none

def handleFlagOp (args : List Sexp) : Sexp :=
  match args with
  | [.atom "not", f] =>
    match farg? f with
    | some x => okOr fargS (.ok (FlagArg.not x))
    | none => bad "flag"
  | [.atom "where", f, t, e] =>
    match farg? f, tree? t, tree? e with
    | some x, some a, some b => okOr treeS (whereTree x a b)
    | _, _, _ => bad "where"
  | [.atom "cond", f, tf, ff, a] =>
    match farg? f, fn? tf, fn? ff, tree? a with
    | some x, some g, some h, some t => okOr treeS (condF x g.run h.run t)
    | _, _, _, _ => bad "cond"
  | [.atom op, f, g] =>
    match farg? f, farg? g with
    | some x, some y =>
      match op with
      | "and" => okOr fargS (FlagArg.and x y)
      | "or" => okOr fargS (FlagArg.or x y)
      | "xor" => okOr fargS (FlagArg.xor x y)
      | _ => bad "op"
    | _, _ => bad "flag"
  | _ => bad "request"

def leaf? : Sexp → Option Leaf
  | .list [.atom "b", x] => do pure ⟨.b, ← Sexp.int? x⟩
  | .list [.atom "i", x] => do pure ⟨.i, ← Sexp.int? x⟩
  | .list [.atom "f", x] => do pure ⟨.f, ← Sexp.int? x⟩
  | _ => none

def leafS (l : Leaf) : Sexp :=
  .list [.atom (match l.dt with | .b => "b" | .i => "i" | .f => "f"), Sexp.ofInt l.x]

def idx? : Sexp → Option Idx
  | .list [.atom "c", i] => do pure (.conc (← Sexp.int? i))
  | .list [.atom "d", i] => do pure (.dyn (← Sexp.int? i))
  | _ => none

def handleChoose (args : List Sexp) : Sexp :=
  match args with
  | i :: vs =>
    match idx? i, vs.mapM leaf? with
    | some ix, some ls => okOr leafS (chooseLeaf ix ls)
    | _, _ => bad "choose"
  | _ => bad "request"

def handleChooseV (args : List Sexp) : Sexp :=
  match args with
  | [is, cols] =>
    match Sexp.listOf? (Sexp.listOf? leaf?) cols with
    | some cs =>
      let r : Option (Except Err (List Leaf)) :=
        match idx? is with
        | some ix => some (cs.mapM (chooseLeaf ix))          -- one scalar index, every leaf position
        | none => (Sexp.listOf? Sexp.int? is).map (fun ixs => chooseElem ixs cs)
      match r with
      | some (.ok ls) => .list (.atom "ok" :: ls.map leafS)
      | some (.error e) => errS e
      | none => bad "choosev"
    | none => bad "choosev"
  | _ => bad "request"

def handleMSwitch (args : List Sexp) : Sexp :=
  match args with
  | [i, fs, as] =>
    match Sexp.int? i, Sexp.listOf? fn? fs, Sexp.listOf? tree? as with
    | some ix, some fl, some al =>
      match multiSwitch Tree.zeros ix (fl.map Fn.run) al with
      | .ok outs => .list (.atom "ok" :: outs.map treeS)
      | .error e => errS e
    | _, _, _ => bad "mswitch"
  | _ => bad "request"

end GenjaxVerif.MaskD

namespace GenjaxVerif.MaskD
def commands : List (String × (List Sexp → Sexp)) :=
  [("mask", handleMask), ("flagop", handleFlagOp), ("choose", handleChoose),
   ("choosev", handleChooseV), ("mswitch", handleMSwitch)]
end GenjaxVerif.MaskD
