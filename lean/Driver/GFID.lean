import GenjaxVerif.Model.Sexp
import GenjaxVerif.Model.GFI
import GenjaxVerif.Model.Derived
import GenjaxVerif.Model.Key
import Driver.SelD
/-! Driver commands for model E (generative-function interface).

  (gfi <prog> (<op> …))  →  (<result> …)   one result per op; ops run in order on a current trace
  op := (sim seed args) | (gen seed cmap args) | (assess cmap args) | (assessSelf)
      | (upd seed cmap args changed) | (regen seed sel args) | (proj sel) | (bwd seed args changed)
  `bwd` applies the backward constraint returned by the previous upd/regen as an Update.

  (threefry seed (path…))  →  (ok w0 w1)   key data, for the C04 key-path correspondence
-/
namespace GenjaxVerif.GFID
open GenjaxVerif GFI

/-- The harness's integer test distributions (harness/gfi_dists.py holds the same table):
    sample = key_data(key)[1] mod m ; logpdf = A + B·v + C·s·v + D·s, s = Σ (j+1)·arg_j. -/
def table : List (Nat × Int × Int × Int × Int) :=
  [(3, 1009, 17, 0, 0), (4, 2003, 13, 5, 3), (5, 3001, 11, 7, 2), (2, 4001, 19, 3, 1)]

def argSum : List Val → Nat → Int
  | [], _ => 0
  | .int a :: rest, j => (j + 1 : Int) * a + argSum rest (j + 1)
  | _ :: rest, j => argSum rest (j + 1)

def concreteDS : DistSem where
  sample := fun d key _ =>
    match table[d]?, key with
    | some (m, _), seed :: path =>
      let kd := Key.keyData (Key.rootOfSeed seed) path
      (kd.2.toNat % m : Nat)
    | _, _ => 0
  lp := fun d v args =>
    match table[d]? with
    | some (_, a, b, c, dd) =>
      let s := match args with | .tup as => argSum as 0 | _ => 0
      a + b * v + c * s * v + dd * s
    | none => 0

/-! parsing -/

partial def val : Sexp → Option Val
  | .atom s => s.toInt?.map Val.int
  | .list (.atom "t" :: vs) => do pure (.tup (← vs.mapM val))
  | .list (.atom "a" :: vs) => do pure (.arr (← vs.mapM val))
  | .list [.atom "m", f, v] => do pure (.mask (← f.bool?) (← val v))
  | _ => none

partial def showVal : Val → Sexp
  | .int i => Sexp.ofInt i
  | .tup vs => .list (.atom "t" :: vs.map showVal)
  | .arr vs => .list (.atom "a" :: vs.map showVal)
  | .mask f v => .list [.atom "m", Sexp.ofBool f, showVal v]

def comp : Sexp → Option Comp
  | .atom s => if s.startsWith "#" then (s.drop 1).toNat?.map Comp.i else some (.s s)
  | _ => none

def showComp : Comp → Sexp
  | .s a => .atom a
  | .i n => .atom s!"#{n}"

def cval : Sexp → Option CVal
  | .atom s => s.toInt?.map CVal.plain
  | .list [.atom "m", f, .atom s] => do pure (.masked (← f.bool?) (← s.toInt?))
  | _ => none

def showCVal : CVal → Sexp
  | .plain v => Sexp.ofInt v
  | .masked f v => .list [.atom "m", Sexp.ofBool f, Sexp.ofInt v]

def cmap : Sexp → Option CMap
  | .list es => es.mapM fun
    | .list [.list p, v] => do pure (← p.mapM comp, ← cval v)
    | _ => none
  | _ => none

def showCMap (c : CMap) : Sexp :=
  .list (c.map fun (p, v) => .list [.list (p.map showComp), showCVal v])

partial def expr : Sexp → Option Expr
  | .atom s => s.toInt?.map Expr.lit
  | .list [.atom "var", n] => n.nat?.map Expr.var
  | .list [.atom "add", a, b] => do pure (.add (← expr a) (← expr b))
  | .list [.atom "sub", a, b] => do pure (.sub (← expr a) (← expr b))
  | .list [.atom "mul", a, b] => do pure (.mul (← expr a) (← expr b))
  | .list (.atom "tup" :: es) => do pure (.tup (← es.mapM expr))
  | .list [.atom "proj", e, k] => do pure (.proj (← expr e) (← k.nat?))
  | .list [.atom "sum", e] => do pure (.sumArr (← expr e))
  | .list [.atom "zeros", n] => n.nat?.map Expr.zeros
  | .list [.atom "cons", a, b] => do pure (.cons (← expr a) (← expr b))
  | .list [.atom "not", e] => do pure (.notb (← expr e))
  | .list [.atom "unmask", e] => do pure (.unmask (← expr e))
  | .list [.atom "sel", c, a, b] => do pure (.sel (← expr c) (← expr a) (← expr b))
  | .list [.atom "all"] => some .all
  | .list (.atom "stack" :: es) => do pure (.stack (← es.mapM expr))
  | _ => none

def preOf : Sexp → Option Pre
  | .atom "id" => some .id
  | .atom "dropLast" => some .dropLast
  | .atom "appendUnit" => some .appendUnit
  | .list (.atom "exprs" :: es) => do pure (.exprs (← es.mapM expr))
  | .list [.atom "whole", e] => do pure (.whole (← expr e))
  | _ => none

/-- `in_axes` entries: `F` = None, `T` = 0, a number = that axis. -/
def ax? : Sexp → Option Ax
  | .atom "F" => some none
  | .atom "T" => some (some 0)
  | s => do pure (some (← s.nat?))

def strs : Sexp → Option (List String)
  | .list xs => xs.mapM fun | .atom s => some s | _ => none
  | _ => none

mutual
partial def prog : Sexp → Option Prog
  | .list [.atom "dist", d] => d.nat?.map Prog.dist
  | .list [.atom "static", b] => do pure (.static (← body b))
  | .list [.atom "vmap", p, .list axes] => do pure (.vmap (← prog p) (← axes.mapM ax?))
  | .list [.atom "scan", p, .atom "none"] => do pure (.scan (← prog p) none)
  | .list [.atom "scan", p, n] => do pure (.scan (← prog p) (some (← n.nat?)))
  | .list (.atom "switch" :: ps) => do pure (.switch (← ps.mapM prog))
  | .list [.atom "mask", p] => do pure (.mask (← prog p))
  | .list [.atom "dimap", pre, p, post] => do pure (.dimap (← preOf pre) (← prog p) (← expr post))
  -- the library's derived combinators, expanded by the model's own definitions
  | .list [.atom "repeat", p, n] => do pure (Derived.repeat (← prog p) (← n.nat?))
  | .list [.atom "orelse", p, q] => do pure (Derived.orElse (← prog p) (← prog q))
  | .list [.atom "map", p, f] => do pure (Derived.map (← prog p) (← expr f))
  | .list [.atom "contramap", .list pre, p] => do pure (Derived.contramap (← pre.mapM expr) (← prog p))
  | .list [.atom "accumulate", p] => do pure (Derived.accumulate (← prog p))
  | .list [.atom "reduce", p] => do pure (Derived.reduce (← prog p))
  | .list [.atom "iterate", p, n] => do pure (Derived.iterate (← prog p) (← n.nat?))
  | .list [.atom "iterate_final", p, n] => do pure (Derived.iterateFinal (← prog p) (← n.nat?))
  | .list [.atom "masked_iterate", p] => do pure (Derived.maskedIterate (← prog p))
  | .list [.atom "masked_iterate_final", p] => do pure (Derived.maskedIterateFinal (← prog p))
  | .list [.atom "closure", p, .list stored, n] => do
    pure (Derived.closure (← prog p) (← stored.mapM Sexp.int?) (← n.nat?))
  | _ => none
partial def body : Sexp → Option Body
  | .list [.atom "ret", e] => do pure (.ret (← expr e))
  | .list [.atom "bind", a, p, .list es, rest] => do
    pure (.bind (← strs a) (← prog p) (← es.mapM expr) (← body rest))
  | _ => none
end

def showErr : Err → Sexp
  | .missing => .list [.atom "err", .atom "missing"]
  | .reuse => .list [.atom "err", .atom "reuse"]
  | .notSupported => .list [.atom "err", .atom "notSupported"]
  | .shape => .list [.atom "err", .atom "shape"]
  | .unbound => .list [.atom "err", .atom "unbound"]
  | .oob => .list [.atom "err", .atom "oob"]

def showTrace (t : Trace) : Sexp :=
  .list [.atom "tr", showVal t.args, showVal t.ret, Sexp.ofInt t.score, showCMap t.choices]

/-- `(addr-components… upd cmap)` / `(… regen sel)` / `(… empty)` as `((a b) upd c)`. -/
def subReq : Sexp → Option (List String × SubReq)
  | .list [addr, .atom "upd", c] => do pure (← strs addr, SubReq.update (← cmap c))
  | .list [addr, .atom "regen", sel] => do pure (← strs addr, SubReq.regenerate (← SelD.term sel))
  | .list [addr, .atom "empty"] => do pure (← strs addr, SubReq.empty)
  | _ => none

structure St where
  cur : Option Trace := none
  lastBwd : Option CMap := none
  prog : Option Prog := none      -- set by `reclose`: later operations go through this function

def badOp : Sexp := .list [.atom "err", .atom "bad-op"]
def noTrace : Sexp := .list [.atom "err", .atom "no-trace"]

def showRes (r : Res) : Sexp :=
  .list [.atom "ok", showTrace r.tr, .list [.atom "w", Sexp.ofInt r.w],
         .list [.atom "bwd", showCMap r.bwd], .list [.atom "bwdok", Sexp.ofBool r.bwdOk]]

def step (p0 : Prog) (st : St) (op : Sexp) : St × Sexp :=
  let ds := concreteDS
  let p := st.prog.getD p0
  match op with
  | .list [.atom "reclose", ps] =>
    -- the same trace handled through another closure of the same function (other stored arguments)
    match prog ps with
    | some q => ({ st with prog := some q }, .list [.atom "ok"])
    | none => (st, badOp)
  | .list [.atom "sim", seed, a] =>
    match seed.nat?, val a with
    | some s, some a =>
      match simulate ds p [s] a with
      | .ok t => ({ st with cur := some t, lastBwd := none }, .list [.atom "ok", showTrace t])
      | .error e => (st, showErr e)
    | _, _ => (st, badOp)
  | .list [.atom "gen", seed, c, a] =>
    match seed.nat?, cmap c, val a with
    | some s, some c, some a =>
      match generate ds p [s] c a with
      | .ok (t, w) => ({ st with cur := some t, lastBwd := none }, .list [.atom "ok", showTrace t, .list [.atom "w", Sexp.ofInt w]])
      | .error e => (st, showErr e)
    | _, _, _ => (st, badOp)
  | .list [.atom "assess", c, a] =>
    match cmap c, val a with
    | some c, some a =>
      match assess ds p c a with
      | .ok (w, r) => (st, .list [.atom "ok", .list [.atom "w", Sexp.ofInt w], .list [.atom "ret", showVal r]])
      | .error e => (st, showErr e)
    | _, _ => (st, badOp)
  | .list [.atom "assessSelf"] =>
    match st.cur with
    | some t =>
      match assess ds p t.choices t.args with
      | .ok (w, r) => (st, .list [.atom "ok", .list [.atom "w", Sexp.ofInt w], .list [.atom "ret", showVal r]])
      | .error e => (st, showErr e)
    | none => (st, noTrace)
  | .list [.atom "upd", seed, c, a, ch] =>
    match st.cur, seed.nat?, cmap c, val a, ch.bool? with
    | some t, some s, some c, some a, some ch =>
      match update ds p [s] t c a ch with
      | .ok r => ({ st with cur := some r.tr, lastBwd := some r.bwd }, showRes r)
      | .error e => (st, showErr e)
    | none, _, _, _, _ => (st, noTrace)
    | _, _, _, _, _ => (st, badOp)
  | .list [.atom "bwd", seed, a, ch] =>
    match st.cur, st.lastBwd, seed.nat?, val a, ch.bool? with
    | some t, some c, some s, some a, some ch =>
      match update ds p [s] t c a ch with
      | .ok r => ({ st with cur := some r.tr, lastBwd := some r.bwd }, showRes r)
      | .error e => (st, showErr e)
    | _, _, _, _, _ => (st, noTrace)
  | .list [.atom "regen", seed, sel, a] =>
    match st.cur, seed.nat?, SelD.term sel, val a with
    | some t, some s, some sel, some a =>
      match regenerate ds p [s] t sel a with
      | .ok r => ({ st with cur := some r.tr, lastBwd := some r.bwd }, showRes r)
      | .error e => (st, showErr e)
    | none, _, _, _ => (st, noTrace)
    | _, _, _, _ => (st, badOp)
  | .list [.atom "propose", seed, a] =>
    match seed.nat?, val a with
    | some s, some a =>
      match propose ds p [s] a with
      | .ok (c, sc, r) => (st, .list [.atom "ok", .list [.atom "choices", showCMap c], .list [.atom "w", Sexp.ofInt sc],
                                  .list [.atom "ret", showVal r]])
      | .error e => (st, showErr e)
    | _, _ => (st, badOp)
  | .list [.atom "empty", seed, a, nc, ch] =>
    match st.cur, seed.nat?, val a, nc.bool?, ch.bool? with
    | some t, some s, some a, some nc, some ch =>
      match emptyRequest ds p [s] t a nc ch with
      | .ok r => ({ st with cur := some r.tr, lastBwd := some r.bwd }, showRes r)
      | .error e => (st, showErr e)
    | none, _, _, _, _ => (st, noTrace)
    | _, _, _, _, _ => (st, badOp)
  | .list (.atom "subtrace" :: addr) =>
    match st.cur, strs (.list addr) with
    | some t, some a =>
      match t.subtrace a with
      | some s => (st, .list [.atom "ok", .list [.atom "w", Sexp.ofInt s.score], .list [.atom "choices", showCMap s.choices]])
      | none => (st, showErr .missing)
    | none, _ => (st, noTrace)
    | _, _ => (st, badOp)
  | .list [.atom "idx", seed, k, .atom "upd", c] =>
    match st.cur, seed.nat?, k.nat?, cmap c with
    | some t, some s, some k, some c =>
      match editIndex ds .upd p [s] t k c .none with
      | .ok r => ({ st with cur := some r.tr, lastBwd := some r.bwd }, showRes r)
      | .error e => (st, showErr e)
    | none, _, _, _ => (st, noTrace)
    | _, _, _, _ => (st, badOp)
  | .list [.atom "idx", seed, k, .atom "regen", sel] =>
    match st.cur, seed.nat?, k.nat?, SelD.term sel with
    | some t, some s, some k, some sel =>
      match editIndex ds .regen p [s] t k [] sel with
      | .ok r => ({ st with cur := some r.tr, lastBwd := some r.bwd }, showRes r)
      | .error e => (st, showErr e)
    | none, _, _, _ => (st, noTrace)
    | _, _, _, _ => (st, badOp)
  | .list [.atom "sreq", seed, .list entries, a, ch] =>
    match st.cur, seed.nat?, entries.mapM subReq, val a, ch.bool? with
    | some t, some s, some reqs, some a, some ch =>
      match staticRequest ds p [s] t (reqTable reqs) a ch with
      | .ok r => ({ st with cur := some r.tr, lastBwd := some r.bwd }, showRes r)
      | .error e => (st, showErr e)
    | none, _, _, _, _ => (st, noTrace)
    | _, _, _, _, _ => (st, badOp)
  | .list [.atom "proj", sel] =>
    match st.cur, SelD.term sel with
    | some t, some sel =>
      match project p t sel with
      | .ok w => (st, .list [.atom "ok", .list [.atom "w", Sexp.ofInt w]])
      | .error e => (st, showErr e)
    | none, _ => (st, noTrace)
    | _, _ => (st, badOp)
  | _ => (st, badOp)

def handle (args : List Sexp) : Sexp :=
  match args with
  | [ps, .list ops] =>
    match prog ps with
    | some p =>
      let (_, outs) := ops.foldl (fun (acc : St × List Sexp) op =>
        let (st', o) := step p acc.1 op
        (st', acc.2 ++ [o])) ({}, [])
      .list outs
    | none => .list [.atom "err", .atom "bad-prog"]
  | _ => .list [.atom "err", .atom "bad-request"]

def threefry (args : List Sexp) : Sexp :=
  match args with
  | [seed, .list path] =>
    match seed.nat?, path.mapM Sexp.nat? with
    | some s, some p =>
      let kd := Key.keyData (Key.rootOfSeed s) p
      .list [.atom "ok", Sexp.ofNat kd.1.toNat, Sexp.ofNat kd.2.toNat]
    | _, _ => .list [.atom "err", .atom "bad-request"]
  | _ => .list [.atom "err", .atom "bad-request"]

def commands : List (String × (List Sexp → Sexp)) := [("gfi", handle), ("threefry", threefry)]

end GenjaxVerif.GFID
