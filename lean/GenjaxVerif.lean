-- Root of the `GenjaxVerif` library: models, lemmas and property theorems.
import GenjaxVerif.Model.Sexp
import GenjaxVerif.Model.Sel
import GenjaxVerif.Lemmas.Sel
import GenjaxVerif.Props.C18
