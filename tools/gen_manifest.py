#!/usr/bin/env python3
"""Regenerate /verif/MANIFEST.json from harness/props/*.py (claimed checks) and
tools/manifest_texts.json (per-property wording).  Unclaimed properties are listed under
not_applicable with the reason recorded in manifest_texts.json."""
import json
import re
from pathlib import Path

V = Path(__file__).resolve().parent.parent
texts = {f.stem: json.loads(f.read_text()) for f in (V / "tools" / "texts").glob("C*.json")}
props = [json.loads(l)["id"] for l in (V / "properties.jsonl").read_text().splitlines() if l.strip()]
claimed = sorted(p.stem.upper() for p in (V / "harness" / "props").glob("c[0-9]*.py"))
baseline = "cd /repo && /venv/bin/python -m pytest -ra -q -p no:cacheprovider --timeout=900 --continue-on-collection-errors"
checks, na = [], []
for p in props:
    t = texts.get(p, {})
    if p in claimed and not t.get("unclaimed"):
        checks.append({
            "property_id": p,
            "quick_cmd": f"./check {p} --tier quick",
            "thorough_cmd": f"./check {p} --tier thorough",
            "evidence_file": f"evidence/{p}.json",
            "replay_cmd_template": f"./check {p} --replay {{path}}",
            "engine": "lean-model+correspondence-harness",
            "level_claimed": {"category": "proof", "text": t.get("text", ""), "design_ref": t.get("design_ref", "DESIGN.md section 5")},
            "level_note": t.get("note", ""),
            "technique": t.get("technique", "Lean 4 theorems over a hand-written executable model + differential correspondence check against the implementation"),
        })
    else:
        na.append({"property_id": p, "reason": t.get("na_reason", "no check built yet in this tree (work in progress); not claimed")})
m = {
    "version": 1,
    "setup_cmd": "cd /verif/lean && lake build",
    "hooks": {
        "guard": "GENJAX_VERIF",
        "enable": "no hooks are installed: the implementation is pure Python and observed through its public API (editable install of /repo/src)",
        "baseline_off_cmd": baseline,
        "source_commits": [],
        "add_only": True,
    },
    "engines": [
        {"name": "lean-model", "path": "lean", "serves_properties": [c["property_id"] for c in checks],
         "kind_free_text": "Lean 4 library GenjaxVerif: executable models (Model/), lemmas, property theorems (Props/), compiled line-protocol driver"},
        {"name": "correspondence-harness", "path": "harness", "serves_properties": [c["property_id"] for c in checks],
         "kind_free_text": "Python harness run under /venv/bin/python: generators, real-API builders, canonical observation, model-vs-implementation comparison, property predicates, failing-input search"},
    ],
    "checks": checks,
    "not_applicable": na,
    "notes": "Entry point ./check <id> --tier quick|thorough [--replay f]; decision rule and trusted base in DESIGN.md sections 2 and 10; known findings in known_findings.json.",
}
(V / "MANIFEST.json").write_text(json.dumps(m, indent=1) + "\n")
print(f"claimed {len(checks)} / {len(props)}; not_applicable {len(na)}")
