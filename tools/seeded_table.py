#!/usr/bin/env python3
"""Developer tool: print the markdown table of seeded changes (seeded/<id>/meta.json + result.json +
replay_found.json) that DESIGN.md section 0.6 holds."""
import json
from pathlib import Path

V = Path(__file__).resolve().parent.parent
rows = []
for d in sorted((V / "seeded").iterdir()):
    if not (d / "meta.json").exists():
        continue
    meta = json.loads((d / "meta.json").read_text())
    res = json.loads((d / "result.json").read_text()) if (d / "result.json").exists() else {}
    how = ""
    if (d / "replay_found.json").exists():
        rp = json.loads((d / "replay_found.json").read_text())
        det = rp.get("detail", {}) or {}
        why = det.get("why") or (det.get("diffs") and "; ".join(det["diffs"][0].get("diff", []))) or ""
        how = f"{rp.get('kind', '')}: {str(why)[:110]}"
    breaks = str(meta.get("breaks", "")).replace("|", "/").replace("\n", " ")
    breaks = breaks[:230] + ("…" if len(breaks) > 230 else "")
    status = "caught" if res.get("caught") else ("MISSED" if res else "not evaluated")
    if res.get("caught") and "no-failing-input-found" in res.get("first_line", ""):
        status = "caught (correspondence only)"
    rows.append(f"| {d.name} | {breaks} | {res.get('check', '')} quick: {status} | {how.replace('|', '/')} |")
print("| id | seeded change (what it breaks) | result | how it showed |")
print("|---|---|---|---|")
print("\n".join(rows))
