#!/usr/bin/env python3
"""Developer tool: rebuild known_findings.json's `known` list from tools/findings/*.json
(the `fixed` list is kept as it is).  Never run by a check."""
import json
from pathlib import Path

V = Path(__file__).resolve().parent.parent
kf = json.loads((V / "known_findings.json").read_text())
known = []
for f in sorted((V / "tools" / "findings").glob("*.json")):
    known += json.loads(f.read_text())
kf["known"] = known
(V / "known_findings.json").write_text(json.dumps(kf, indent=1) + "\n")
print("known:", [k["id"] for k in known], "fixed:", len(kf.get("fixed", [])))
