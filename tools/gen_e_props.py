#!/usr/bin/env python3
"""Developer tool: (re)generate the thin per-property modules of the model-E family."""
from pathlib import Path

V = Path(__file__).resolve().parent.parent
P = "GenjaxVerif.GFI."
E = {
    "C01": dict(title="every trace agrees with assess on its own choices and arguments", strength="partial",
                modules=["GenjaxVerif.Props.C01"],
                theorems=["C01_trace_assess_partial", "C01_trace_assess_own_args_partial", "C01_assess_rebuilds_trace", "C01_refuted"],
                props=["C01"], opts={"assessSelf": 2.0, "upd": 2.0, "masked": 0.3}, focus={"vmap": 2.0, "scan": 2.0}),
    "C02": dict(title="scores are the exact joint log-density defined by the program", strength="partial",
                modules=["GenjaxVerif.Props.C02"],
                theorems=["C02_assess_is_joint_logdensity", "C02_score_is_sum_over_live_choices", "C02_leaf_logdensity", "C02_trace_score_eq_assess_partial",
                          "C02_masked_off_contributes_zero", "C02_simulate_weight_zero"],
                props=["C02", "C22"], opts={"assess": 2.0, "assessSelf": 1.5, "upd": 0.5, "regen": 0.5}, focus={}),
    "C05": dict(title="update installs the constraint and weighs by the score change", strength="partial",
                modules=["GenjaxVerif.Props.C05"],
                theorems=["C05_update_weight", "C05_new_trace_holds_new_args", "C05_update_installs_constraint", "C05_update_keeps_unconstrained", "C05_update_shape", "C05_leaf_update"],
                props=["C05"], opts={"upd": 4.0, "regen": 0.2, "proj": 0.2, "bwd": 0.2, "max_ops": 4, "masked": 0.2}, focus={}),
    "C07": dict(title="regenerate resamples exactly the selected choices", strength="partial",
                modules=["GenjaxVerif.Props.C07"],
                theorems=["C07_regenerate_weight", "C07_unselected_unchanged", "C07_leaf_regenerate", "C07_mask_switch_not_supported", "C07_vmap_not_supported"],
                props=["C07", "C01"], opts={"regen": 4.0, "upd": 0.3, "proj": 0.2, "assessSelf": 1.5, "regen_args": 0.3},
                focus={"vmap": 0.2, "switch": 0.2, "mask": 0.2, "repeat": 0.2, "orelse": 0.2,
                       "masked_iterate": 0.1, "masked_iterate_final": 0.1, "scan": 2.0, "int": 2.0}),
    "C10": dict(title="project splits the score along a selection", strength="full",
                modules=["GenjaxVerif.Props.C10"],
                theorems=["C10_project_complement", "C10_project_split", "C10_project_none", "C10_project_all",
                          "C10_project_leaf", "C10_mask_not_supported"],
                props=["C10"], opts={"proj": 5.0, "upd": 0.5, "regen": 0.3},
                focus={"mask": 0.15, "masked_iterate": 0.1, "masked_iterate_final": 0.1}),
    "C14": dict(title="mask: a true flag is transparent and a false flag is inert", strength="full",
                modules=["GenjaxVerif.Props.C14"],
                theorems=["C14_mask_transparent_or_inert", "C14_false_choices_all_invalid", "C14_flip_weight"],
                props=["C01", "C02", "C03", "C05"], opts={"upd": 3.0, "regen": 0.0, "proj": 0.0, "bwd": 0.0},
                focus={"mask": 12.0, "masked_iterate": 2.0, "masked_iterate_final": 2.0, "vmap": 2.0}),
    "C03": dict(title="importance weights equal the log-density of the constrained choices", strength="full",
                modules=["GenjaxVerif.Props.C03"],
                theorems=["C03_generate_weight", "C03_trace_agrees_with_constraint", "C03_empty_constraint_weight_zero", "C03_leaf_generate",
                          "C03_score_when_all_constrained"],
                props=["C03"], opts={"gen": 4.0, "start_gen": 0.9, "upd": 0.3, "regen": 0.2, "proj": 0.2, "masked": 0.2}, focus={}),
    "C06": dict(title="backward requests undo edits exactly", strength="partial",
                modules=["GenjaxVerif.Props.C06"],
                theorems=["C06_leaf_roundtrip_partial", "C06_backward_structure", "C06_refuted", "C06_switch_backward_is_the_branchs",
                          "C06_static_request_backward"],
                props=["C06", "C38"], opts={"upd": 4.0, "bwd": 1.0, "regen": 0.6, "proj": 0.1, "max_ops": 4, "sreq": 3.0, "idx": 1.5},
                focus={"int": 14.0, "static": 4.0, "scan": 3.0, "vmap": 3.0, "walk": 0.5}),
    "C08": dict(title="change tags are sound: NoChange really means unchanged", strength="partial",
                modules=["GenjaxVerif.Props.C09", "GenjaxVerif.Props.C05", "GenjaxVerif.Props.C38"],
                theorems=["GenjaxVerif.IR.C09_noninterference", "GenjaxVerif.IR.C09_tags_value_independent",
                          "GenjaxVerif.IR.C09_default_rule", "C05_leaf_update", "C38_empty_update_is_identity"],
                props=["C08"], opts={"upd": 4.0, "regen": 1.0, "proj": 0.0, "retag": True, "bwd": 0.2},
                focus={"switch": 0.2, "orelse": 0.2, "int": 4.0, "dimapped": 4.0}),
    "C11": dict(title="vmap and repeat behave as independent elementwise calls", strength="full",
                modules=["GenjaxVerif.Props.C11"],
                theorems=["C11_vmap_elementwise", "C11_element_input", "C11_indexed_constraint_only_its_element",
                          "C11_choices_under_index", "C11_zero_length", "C11_repeat_def", "C11_repeat_element_args",
                          "C11_index_request_edits_one_element", "C11_index_update_weight", "C11_slice_follows_axis"],
                props=["C01", "C02", "C03", "C05", "C11", "C34"], opts={"upd": 1.5, "gen": 1.5, "regen": 0.1, "masked": 0.1, "idx": 2.5},
                focus={"vmap": 10.0, "repeat": 6.0, "axis1": 0.3}, zero_len=0.12),
    "C12": dict(title="scan and its derived combinators match the documented Python loops", strength="full",
                modules=["GenjaxVerif.Props.C12"],
                theorems=["C12_scan_is_the_loop", "C12_final_carry", "C12_iteration_input", "C12_derived_defs",
                          "C12_derived_return_maps", "C12_index_edit"],
                props=["C01", "C02", "C03", "C05", "C07", "C11", "C34"], opts={"upd": 1.5, "gen": 1.0, "regen": 1.0, "idx": 2.5},
                focus={"scan": 8.0, "accumulate": 3.0, "reduce": 3.0, "iterate": 3.0, "iterate_final": 3.0, "walk": 0.5}),
    "C13": dict(title="switch, or_else and mix follow exactly one branch consistently", strength="partial", extras="c13_extra",
                modules=["GenjaxVerif.Props.C13"],
                theorems=["C13_switch_is_branch", "C13_switch_update_same_branch", "C13_switch_args", "C13_orElse_def",
                          "C13_orElse_index", "C13_clamp"],
                props=["C01", "C02", "C03", "C05", "C10"], opts={"upd": 1.5, "gen": 1.5, "regen": 0.0, "proj": 1.0, "bwd": 0.0, "py": 0.3, "oob_family": True},
                focus={"switch": 10.0, "orelse": 6.0, "vmap": 2.0, "oob": 0.2}),
    "C15": dict(title="dimap, map and contramap only transform arguments and return values", strength="full",
                modules=["GenjaxVerif.Props.C15"],
                theorems=["C15_dimap_transparent", "C15_map_contramap_def", "C15_identity_maps", "C15_edit_uses_inner_trace"],
                props=["C01", "C02", "C03", "C05", "C07", "C08"], opts={"upd": 2.5, "regen": 1.0},
                focus={"int": 6.0, "dimapped": 8.0, "static": 0.5, "dist": 0.5}),
    "C16": dict(title="masked iteration steps with a false mask are inert", strength="full",
                modules=["GenjaxVerif.Props.C16"],
                theorems=["C16_final_def", "C16_step"],
                props=["C01", "C02", "C03", "C05"], opts={"upd": 1.5, "regen": 0.0, "proj": 0.0, "gen": 1.5, "bwd": 0.0},
                focus={"masked_iterate": 10.0, "masked_iterate_final": 14.0}),
    "C22": dict(title="the static language traces exactly the visited addresses, once each", strength="full",
                modules=["GenjaxVerif.Props.C22"],
                theorems=["C22_records_exactly_the_visited_addresses", "C22_tuple_addresses_nest", "C22_address_reuse",
                          "C22_address_reuse_body", "C22_missing_address_iff"],
                props=["C22", "C02"], opts={"assess": 2.0, "assess_partial": 0.5, "gen": 1.0, "upd": 0.5},
                focus={"int": 6.0, "static": 6.0, "tuple_addr": 0.5, "dup_addr": 0.12}),
    "C23": dict(title="GFI results are invariant under jax.jit and consistent under jax.vmap", strength="partial",
                modules=["GenjaxVerif.Props.C19", "GenjaxVerif.Props.C20", "GenjaxVerif.Props.C11"],
                theorems=["GenjaxVerif.MaskModel.C19_mode_invariance", "GenjaxVerif.MaskModel.C20_flagop_mode_invariance",
                          "C11_vmap_elementwise"],
                props=["C01", "C02", "C03", "C05", "C07", "C10", "C23"], opts={"jit": 0.6, "py": 0.5, "vbatch": 0.4, "start_gen": 0.2, "oob_family": True}, focus={"switch": 3.0, "orelse": 2.0, "oob": 0.25}),
    "C32": dict(title="generative function closures and keyword handling are transparent", strength="partial",
                modules=["GenjaxVerif.Props.C32"],
                theorems=["C32_closure_args", "C32_closure_transparent"],
                props=["C01", "C02", "C03", "C05", "C07"], opts={"upd": 2.0, "regen": 1.5, "gen": 0.7, "reclose": 4.0, "proj": 0.3, "assessSelf": 0.5},
                focus={"closure": 14.0}),
    "C34": dict(title="get_subtrace returns the sub-execution at an address", strength="partial",
                modules=["GenjaxVerif.Props.C34"],
                theorems=["C34_subtrace_choices", "C34_subtrace_score", "C34_delegation"],
                props=["C34", "C01"], opts={"subtrace": 5.0, "upd": 1.0, "regen": 0.5, "proj": 0.0, "idx": 2.0},
                focus={"int": 6.0, "static": 6.0, "tuple_addr": 0.4, "scan": 4.0, "vmap": 2.0, "walk": 0.6}),
    "C35": dict(title="masked constraint values act as conditional constraints", strength="full",
                modules=["GenjaxVerif.Props.C35"],
                theorems=["C35_generate_masked", "C35_update_masked", "C35_vector_elementwise"],
                props=["C03", "C05", "C01"], opts={"gen": 3.0, "start_gen": 0.8, "upd": 3.0, "regen": 0.0, "proj": 0.0, "masked": 0.6, "bwd": 0.0},
                focus={"vmap": 4.0, "scan": 2.0}),
    "C38": dict(title="derived GFI methods and request combinators agree with the primitives", strength="partial",
                modules=["GenjaxVerif.Props.C38"],
                theorems=["C38_propose_eq_simulate", "C38_importance_eq_generate", "C38_empty_request_nochange",
                          "C38_empty_request_changed", "C38_simulate_weight", "C38_static_request_of_updates",
                          "C38_static_request_of_regenerates", "C38_static_request_table", "C38_static_request_empty",
                          "C38_static_request_weight", "C38_static_request_static_only", "C38_diff_annotate_identity",
                          "C38_empty_update_is_identity", "C38_empty_request_arms_agree"],
                props=["C38", "C01", "C06"], opts={"propose": 3.0, "empty": 3.0, "upd": 2.0, "regen": 1.0, "proj": 0.5, "sreq": 3.0, "derived": True, "regen_args": 0.5},
                focus={"int": 14.0, "static": 4.0}),
}

TEMPLATE = '''"""{pid} — {title}.

Generated by tools/gen_e_props.py; the engine is harness/gfi_check.py (model E)."""
from harness import gfi_check
from harness.common import Spec

PROPS = {props!r}
OPTS = {opts!r}
FOCUS = {focus!r}


def run(ctx):
    gfi_check.standard_run(ctx, props=set(PROPS), focus=FOCUS, opts=OPTS, prop_id="{pid}", zero_len={zero_len})
{extras_call}

def replay(ctx, payload):
    gfi_check.replay_case(ctx, payload, set(PROPS))


SPEC = Spec(
    prop_id="{pid}",
    modules={modules!r},
    theorems={theorems!r},
    strength="{strength}",
    run=run,
    replay=replay,
    assumptions=gfi_check.ASSUMPTIONS,
    extra_trusted=gfi_check.EXTRA_TRUSTED,
)
'''

for pid, d in E.items():
    d = dict(d)
    d["theorems"] = [t if t.startswith("GenjaxVerif.") else P + t for t in d["theorems"]]
    d.setdefault("zero_len", 0.0)
    ex = d.pop("extras", None)
    d["extras_call"] = (f"    from harness import common, {ex}\n\n    {ex}.run_extras(ctx, common)\n" if ex else "")
    (V / "harness" / "props" / f"{pid.lower()}.py").write_text(TEMPLATE.format(pid=pid, **d))
print("generated", sorted(E))
