#!/bin/bash
# Developer tool: run the check of each seeded change against a scratch worktree of /repo with the
# change applied (PYTHONPATH points the harness at it; /repo itself is never touched), from a scratch
# copy of /verif so that evidence / replays of the real tree are not overwritten.
# usage: tools/eval_seeded.sh [ids...]     (default: every directory under /verif/seeded)
V=/var/tmp/verif-mut${EVAL_TAG}
WT=/var/tmp/repo-mut${EVAL_TAG}
rm -rf $V; cp -r /verif $V
git -C /repo worktree remove --force $WT 2>/dev/null
git -C /repo worktree add -q --detach $WT HEAD || exit 2
for id in ${@:-$(ls /verif/seeded)}; do
  d=/verif/seeded/$id
  cd $WT && git reset -q --hard HEAD && git clean -fdq
  if ! git apply --3way $d/patch.diff 2>/tmp/apply-$id.err; then echo "$id: PATCH-DOES-NOT-APPLY ($(head -c 200 /tmp/apply-$id.err))"; continue; fi
  # which property does it break?
  prop=$(python3 -c "import json;print(json.load(open('$d/meta.json'))['property'])")
  cd $V
  out=$(PYTHONPATH=$WT/src VERIF_SEED=${VERIF_SEED:-0} timeout 3000 ./check $prop --tier quick 2>&1); rc=$?
  echo "$id: check $prop exit=$rc :: $(echo "$out" | grep -E '^(VIOLATION|INFRA|OK)' | head -2 | cut -c1-160 | tr '\n' ' ')"
  cp $V/evidence/$prop.json /var/tmp/eval-evidence-$id.json 2>/dev/null
  python3 - "$id" "$prop" "$rc" "$(echo "$out" | grep -E '^(VIOLATION|INFRA|OK)' | head -1 | sed "s#$V#/verif#g")" <<'PY'
import json, sys
i, prop, rc, line = sys.argv[1:5]
json.dump({"check": prop, "tier": "quick", "exit": int(rc), "first_line": line[:300],
           "caught": int(rc) == 1 and line.startswith("VIOLATION")}, open(f"/verif/seeded/{i}/result.json", "w"), indent=1)
PY
  if [ $rc -eq 1 ]; then f=$(echo "$out" | grep -m1 -o 'replay=[^ ]*' | cut -d= -f2); [ -n "$f" ] && cp "$f" /verif/seeded/$id/replay_found.json; fi
done
cd /; git -C /repo worktree remove --force $WT; rm -rf $V
