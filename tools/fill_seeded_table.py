#!/usr/bin/env python3
"""Developer tool: write the output of tools/seeded_table.py between the markers of DESIGN.md section 0.6."""
import re, subprocess, sys
from pathlib import Path
V = Path(__file__).resolve().parent.parent
t = subprocess.run([sys.executable, str(V / "tools/seeded_table.py")], capture_output=True, text=True, check=True).stdout
p = V / "DESIGN.md"
s = p.read_text()
s = re.sub(r"<!-- SEEDED-TABLE-BEGIN -->.*<!-- SEEDED-TABLE-END -->", "<!-- SEEDED-TABLE-BEGIN -->\n" + t.replace("\\", "\\\\") + "<!-- SEEDED-TABLE-END -->", s, flags=re.S)
p.write_text(s)
