#!/bin/bash
# Developer tool: run every claimed check once (quick tier) with the given seed; summary on stdout.
# usage: tools/run_all.sh [seed] [ids...]
cd "$(dirname "$0")/.."
SEED=${1:-0}; shift
IDS=${@:-$(python3 -c "import json; print(' '.join(c['property_id'] for c in json.load(open('MANIFEST.json'))['checks']))")}
for p in $IDS; do
  s=$(date +%s)
  out=$(VERIF_SEED=$SEED timeout 3000 ./check $p --tier quick 2>&1); rc=$?
  e=$(date +%s)
  echo "== $p seed=$SEED exit=$rc wall=$((e-s))s"
  echo "$out" | grep -E "^(VIOLATION|KNOWN-FINDING|INFRA|OK)" | cut -c1-200
done
