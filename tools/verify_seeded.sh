#!/bin/bash
# Developer tool: confirm each seeded change in a scratch worktree (demo fails with it, passes without).
# usage: tools/verify_seeded.sh /tmp/seeded [ids...]
SRC=$1; shift
WT=/tmp/eval-wt
git -C /repo worktree remove --force $WT 2>/dev/null
git -C /repo worktree add -q --detach $WT HEAD || exit 2
for d in ${@:-$(ls $SRC)}; do
  [ -f $SRC/$d/patch.diff ] || continue
  cd $WT && git reset -q --hard HEAD
  if ! git apply --check $SRC/$d/patch.diff 2>/dev/null; then echo "$d: PATCH-DOES-NOT-APPLY"; continue; fi
  git apply $SRC/$d/patch.diff
  PYTHONPATH=$WT/src timeout 900 /venv/bin/python $SRC/$d/demo.py > /tmp/eval-$d-with.log 2>&1; W=$?
  git reset -q --hard HEAD
  PYTHONPATH=$WT/src timeout 900 /venv/bin/python $SRC/$d/demo.py > /tmp/eval-$d-without.log 2>&1; WO=$?
  echo "$d: with-patch exit=$W without-patch exit=$WO"
done
cd /; git -C /repo worktree remove --force $WT
