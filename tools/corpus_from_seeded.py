#!/usr/bin/env python3
"""Developer tool: the inputs on which a seeded change was caught become regression corpus cases of the
model-E checks (corpus/<id>/seeded.json); they run first on every run, so those changes stay caught
whatever the random stream."""
import json
from pathlib import Path

V = Path(__file__).resolve().parent.parent
n = 0
for d in sorted((V / "seeded").iterdir()):
    rp = d / "replay_found.json"
    if not rp.exists():
        continue
    case = json.loads(rp.read_text()).get("case")
    if not (isinstance(case, dict) and "prog" in case and "ops" in case and "atys" in case):
        continue            # not a model-E history
    prop = json.loads((d / "meta.json").read_text())["property"]
    out = V / "corpus" / prop
    out.mkdir(parents=True, exist_ok=True)
    f = out / "seeded.json"
    cases = json.loads(f.read_text()) if f.exists() else []
    case = {k: v for k, v in case.items() if not k.startswith("_")}
    if case not in cases:
        cases.append(case)
        f.write_text(json.dumps(cases, indent=1))
        n += 1
print("added", n)
