#!/bin/bash
# usage: tools/merge_slice.sh /var/tmp/slice-X   -- copy files that exist only in the slice copy into /verif
set -e
S=$1
cd "$S"
find lean/GenjaxVerif lean/Driver harness tools/texts tools/findings corpus -type f 2>/dev/null | grep -v __pycache__ | while read f; do
  if [ ! -e "/verif/$f" ]; then mkdir -p "/verif/$(dirname $f)"; cp "$f" "/verif/$f"; echo "added $f"; fi
done
